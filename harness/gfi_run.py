"""B-gfi: case generation, execution on the implementation (worker processes),
direct oracles, Coq literals."""
import os
import sys
import json
import random
import traceback
from . import gfi
from .gfi import Gen, desugar, c_gf, c_dgf, c_val, c_path, c_entries, c_sel, addresses_n, vm_lens
from .core import clist, cz, cbool

ERR = {"AddressReuse": "EAddressReuse", "MissingAddress": "EMissingAddress",
       "NotImplementedError": "ENotSupported", "NotSupportedEditRequest": "ENotSupported"}


def err_enum(e):
    n = type(e).__name__
    if n in ERR: return ERR[n]
    if "TypeError" in n or "Beartype" in n or "TypeCheck" in n: return "EType"
    return "EOther"


# ---------------------------------------------------------------------------
# case generation
# ---------------------------------------------------------------------------
SELS = [("all",), ("none",), ("leaf",)]


def gen_sel(rng, ids, depth=2):
    if depth == 0 or rng.random() < 0.3:
        k = rng.random()
        if k < 0.15: return ("all",)
        if k < 0.25: return ("none",)
        if k < 0.3: return ("leaf",)
        q = [("..." if rng.random() < 0.15 else rng.choice(ids)) for _ in range(rng.randint(1, 2))]
        return ("at", q)
    k = rng.random()
    if k < 0.35: return ("or", gen_sel(rng, ids, depth - 1), gen_sel(rng, ids, depth - 1))
    if k < 0.6: return ("and", gen_sel(rng, ids, depth - 1), gen_sel(rng, ids, depth - 1))
    return ("not", gen_sel(rng, ids, depth - 1))


def elem_type(ax, t):
    """type of one element of a vmapped argument"""
    if ax is None or t in (None, "?"):
        return t
    if ax == 1:
        return ("A", t[1], t[2][2])       # a column of a rows x columns matrix
    return t[2]


def lens_of(core, argt, args):
    """lengths of vmap/scan nodes in pre-order; they are static in the generated programs,
    so they are recomputed by a symbolic walk over types"""
    out = []

    def go(p, at):
        k = p[0]
        if k == "dist": return
        if k == "static":
            envt = list(at)
            for (a, g, es) in p[1]:
                gat = [etype(e, envt) for e in es]
                go(g, gat)
                envt.append(rtype(g, gat))
            return
        if k == "vmap":
            n = None
            for ax, t in zip(p[1], at):
                if ax is not None and t is not None and t != "?" and t[0] == "A":
                    n = t[2][1] if ax == 1 else t[1]; break
            out.append(n)
            go(p[2], [elem_type(ax, t) for ax, t in zip(p[1], at)])
            return
        if k == "scan":
            n = p[1]
            if n is None:
                n = at[1][1]
            out.append(n)
            go(p[2], [at[0], (at[1][2] if at[1] not in ("N", None, "?") else "N")])
            return
        if k == "switch":
            for g, t in zip(p[1], at[1:]):
                go(g, t[1])
            return
        if k == "mask":
            go(p[1], at[1:]); return
        if k == "dimap":
            gat = [etype(e, list(at)) for e in p[1]]
            go(p[2], gat); return
        raise ValueError(p)

    def etype(e, envt):
        k = e[0]
        if k == "var": return envt[e[1]]
        if k in ("const", "add", "mul"): return "S"
        if k == "tup": return ("T", [etype(x, envt) for x in e[1]])
        if k == "proj":
            t = etype(e[2], envt)
            return t[1][e[1]]
        if k == "none": return "N"
        if k == "zeros": return ("A", e[1], "S")
        if k == "notidx": return "I"
        if k == "cons":
            t = etype(e[2], envt)
            return ("A", t[1] + 1, t[2])
        if k == "unmask": return etype(e[2], envt)
        if k == "maskvalue": return etype(e[1], envt)[1]
        raise ValueError(e)

    def rtype(p, at):
        k = p[0]
        if k == "dist": return "S"
        if k == "static":
            envt = list(at)
            for (a, g, es) in p[1]:
                envt.append(rtype(g, [etype(e, envt) for e in es]))
            return etype(p[2], envt)
        if k == "vmap":
            n = None
            for ax, t in zip(p[1], at):
                if ax is not None and t[0] == "A":
                    n = t[2][1] if ax == 1 else t[1]; break
            return ("A", n, rtype(p[2], [elem_type(ax, t) for ax, t in zip(p[1], at)]))
        if k == "scan":
            n = p[1] if p[1] is not None else at[1][1]
            kt = rtype(p[2], [at[0], (at[1][2] if at[1] != "N" else "N")])
            return ("T", [kt[1][0], ("A", n, kt[1][1])])
        if k == "switch": return rtype(p[1][0], at[1][1])
        if k == "mask":
            it = rtype(p[1], at[1:])
            return it if (isinstance(it, tuple) and it[0] == "M") else ("M", it)
        if k == "dimap":
            gat = [etype(e, list(at)) for e in p[1]]
            return etype(p[3], [("T", list(at)), ("T", gat), rtype(p[2], gat)])
        raise ValueError(p)

    go(core, argt)
    return out


def make_case(seed, depth, flavour="basic"):
    rng = random.Random(seed)
    G = Gen(rng)
    # flavour "root:<kind>": the targeted stream — the root of the program is the named combinator ("axis1": a vmap
    # whose first argument is mapped along axis 1), so that the requests only a root accepts (IndexRequest on vmap / scan,
    # index-changing updates of a switch) and every derived combinator are met in every run
    root = flavour[5:] if flavour.startswith("root:") else None
    for _ in range(80 if root else 20):
        if root == "axis1":
            prog, argt, rett = G.vmap(max(depth, 2))
            if not (prog[0] == "vmap" and prog[1] and prog[1][0] == 1):
                continue
        elif root == "dimap" and (seed % 100) % 2 == 0:
            prog, argt, rett = G.dimap_dropping(max(depth, 1))       # every other targeted dimap: post reads an argument pre drops
        elif root == "static":
            prog, argt, rett = G.static(max(depth, 1), ["S"] * rng.randint(1, 2))      # with arguments: its edits change them
        elif root:
            prog, argt, rett = getattr(G, root)(max(depth, 1))
        else:
            prog, argt, rett = G.gf(depth)
        core = desugar(prog)
        try:
            lens = lens_of(core, argt, None)
        except Exception:
            continue
        if any(l is None for l in lens):
            continue
        break
    if flavour == "dup" and prog[0] == "static" and len(prog[1]) >= 2:
        sites = list(prog[1])
        sites[-1] = (sites[0][0], sites[-1][1], sites[-1][2])      # the last site re-uses the first site's address
        prog = ("static", sites, prog[2])
        core = desugar(prog)
    nb = max([len(p[1]) for p in walk(core) if p[0] == "switch"] + [2])
    args = [G.value(t, nb) for t in argt]
    # flags are array flags: a Python-bool mask flag takes the concrete shortcut of ChoiceMap.mask (known finding K17);
    # indices are Python ints or arrays
    stages = [("ar" if t == "B" else rng.choice(["ar", "ar", "py"])) for t in argt]
    if root == "switch" and argt and argt[0] == "I":
        # the targeted stream meets the clamped indices in both stagings in every run: -1 / n as Python ints first
        nbr = len(core[1]) if core[0] == "switch" else nb
        args[0], stages[0] = [(-1, "py"), (nbr, "py"), (-1, "ar"), (nbr, "ar"), (0, "py"), (1, "ar"), (-2, "py"), (nbr + 1, "ar")][(seed % 100) % 8]
    univ = addresses_n(core, list(lens))
    # de-duplicate
    seen, u2 = set(), []
    for p in univ:
        key = tuple(p)
        if key not in seen:
            seen.add(key); u2.append(p)
    univ_full = len(u2) <= 40
    univ = u2[:40]
    ids = sorted({x for p in univ for (k, x) in p if k == "s"}) or [0]
    # junk addresses sit at *static* levels only (a static key where the program expects an index level is a
    # vectorised constraint in GenJAX and needs array-shaped leaves): replace the last static component by a foreign one
    junk = []
    for p in univ:
        sidx = [i for i, (k, x) in enumerate(p) if k == "s"]
        if sidx:
            q = list(p[:sidx[-1]]) + [("s", 9)]
            if q not in junk:
                junk.append(q)
        if len(junk) >= 2:
            break
    case = {"seed": seed, "prog": prog, "core": core, "argt": argt, "rett": rett, "args": args, "stages": stages,
            "univ": univ, "junk": junk, "ids": ids, "zero_len": any(l == 0 for l in lens), "lens": list(lens), "keyseed": rng.randint(0, 10 ** 6),
            "sels": [gen_sel(rng, ids) for _ in range(3)], "rngseed": rng.randint(0, 10 ** 9), "flavour": flavour,
            "univ_full": univ_full}      # False: observations look up only the first 40 addresses of the program
    return case


def walk(p):
    yield p
    k = p[0]
    if k == "static":
        for (a, g, es) in p[1]:
            yield from walk(g)
    elif k in ("vmap", "scan"):
        yield from walk(p[2])
    elif k == "switch":
        for g in p[1]:
            yield from walk(g)
    elif k == "mask":
        yield from walk(p[1])
    elif k == "dimap":
        yield from walk(p[2])


def sub_patterns(p):
    """get_subtrace address patterns of a core program: lists of ("hop", addr) / ("vec",) / ("mask",) / ("switch",)
    in traversal order, each ending with a hop"""
    k = p[0]
    if k == "static":
        out = []
        for (a, g, es) in p[1]:
            out.append([("hop", list(a))])
            out += [[("hop", list(a))] + q for q in sub_patterns(g)]
        return out
    if k in ("vmap", "scan"):
        return [[("vec",)] + q for q in sub_patterns(p[2])]
    if k == "switch":
        return [[("switch",)] + q for g in p[1] for q in sub_patterns(g)]
    if k == "mask":
        return [[("mask",)] + q for q in sub_patterns(p[1])]
    if k == "dimap":
        return sub_patterns(p[2])
    return []


def pattern_instances(pat, univ, limit=2):
    """concrete index tuples (one index per vec of the pattern) for which the universe has an address under the pattern"""
    out = []
    for path in univ:
        i, idx, ok = 0, [], True
        for el in pat:
            if el[0] == "hop":
                n = len(el[1])
                if [c[0] for c in path[i:i + n]] != ["s"] * n or [c[1] for c in path[i:i + n]] != list(el[1]):
                    ok = False; break
                i += n
            elif el[0] == "vec":
                if i >= len(path) or path[i][0] != "i":
                    ok = False; break
                idx.append(path[i][1]); i += 1
        if ok and idx not in out:
            out.append(idx)
            if len(out) >= limit:
                break
    return out


def pattern_prefix(pat, idx):
    pre, k = [], 0
    for el in pat:
        if el[0] == "hop":
            pre += [("s", x) for x in el[1]]
        elif el[0] == "vec":
            pre.append(("i", idx[k])); k += 1
    return pre


def shape_paths(p):
    """address paths of a core program with index levels abstracted: tuples of ("s", id) / ("i",)"""
    k = p[0]
    if k == "dist":
        return {()}
    if k == "static":
        out = set()
        for (a, g, es) in p[1]:
            pre = tuple(("s", x) for x in a)
            out |= {pre + q for q in shape_paths(g)}
        return out
    if k in ("vmap", "scan"):
        return {(("i",),) + q for q in shape_paths(p[2])}
    if k == "switch":
        return set().union(*[shape_paths(g) for g in p[1]]) if p[1] else set()
    if k == "mask":
        return shape_paths(p[1])
    if k == "dimap":
        return shape_paths(p[2])
    return set()


def switch_prefix_clash(core):
    """K65: some switch has two branches that use one address prefix with different structure below it
    (a static key / a value in one branch where the other has an index level)"""
    for p in walk(core):
        if p[0] != "switch":
            continue
        sets = [shape_paths(g) for g in p[1]]
        for i in range(len(sets)):
            for j in range(len(sets)):
                if i == j:
                    continue
                for a in sets[i]:
                    for b in sets[j]:
                        n = 0
                        while n < len(a) and n < len(b) and a[n] == b[n]:
                            n += 1
                        if n < len(a) and a[n] == ("i",) and (n == len(b) or b[n][0] == "s") and n > 0:
                            return True
    return False


def has(core, kinds):
    return any(p[0] in kinds for p in walk(core))



# ---------------------------------------------------------------------------
# edit requests
# ---------------------------------------------------------------------------
EDIT_OK_UPDATE = ("dist", "static", "vmap", "scan", "mask", "dimap", "switch")
EDIT_OK_REGEN = ("dist", "static", "scan", "dimap")


def kinds_of(core):
    return {p[0] for p in walk(core)}


def realise_req(q):
    import jax.numpy as jnp
    from genjax import Update, Regenerate, EmptyRequest, StaticRequest, IndexRequest
    k = q[0]
    if k == "update": return Update(gfi.build_chm(q[1], q[2]))       # style 2 uses gfi.set_style_n set by run_case
    if k == "regen": return Regenerate(gfi.realise_sel(q[1]))
    if k == "empty": return EmptyRequest()
    if k == "static": return StaticRequest({gfi.addr_name(a): realise_req(r) for a, r in q[1]})
    if k == "index": return IndexRequest(jnp.array(q[1], dtype=jnp.int32), realise_req(q[2]))
    raise ValueError(q)


def c_req(q):
    k = q[0]
    if k == "update": return f"(QUpdate {c_entries(q[1])})"
    if k == "regen": return f"(QRegen {c_sel(q[1])})"
    if k == "empty": return "QEmpty"
    if k == "static": return "(QStatic %s)" % clist([f"({gfi.c_addr(a)}, {c_req(r)})" for a, r in q[1]])
    if k == "index": return f"(QIndex {cz(q[1])} {c_req(q[2])})"
    raise ValueError(q)


def flat_lookup(req, path):
    """value a (backward) request would install at a full address; None = nothing; raises NotFlat"""
    from genjax import Update, EmptyRequest, StaticRequest, IndexRequest
    import numpy as np
    if isinstance(req, Update):
        v = gfi.lookup(req.constraint, path)
        if isinstance(v, tuple):
            raise AssertionError(f"lookup {path} -> {v}")
        return v
    if isinstance(req, EmptyRequest):
        return None
    if isinstance(req, StaticRequest):
        for key, sub in req.addressed.items():
            kt = key if isinstance(key, tuple) else (key,)
            names = tuple(f"a{x}" for (kk, x) in path[:len(kt)] if kk == "s")
            if len(path) >= len(kt) and all(c[0] == "s" for c in path[:len(kt)]) and names == kt:
                return flat_lookup(sub, path[len(kt):])
        return None
    if isinstance(req, IndexRequest):
        if path and path[0][0] == "i" and int(np.asarray(req.idx)) == path[0][1]:
            return flat_lookup(req.request, path[1:])
        return None
    raise NotFlat(type(req).__name__)


class NotFlat(Exception):
    pass


def observe_bwd(req, case):
    try:
        return {"flat": True, "look": [(p, flat_lookup(req, p)) for p in case["univ"]]}
    except NotFlat:
        return {"flat": False, "look": []}


def retdiff_check(rd, old_retval):
    """C08 part 1 on the implementation: leaves of the return diff tagged NoChange must carry the old return value.
    returns {"leaves": n, "nochange": m, "violations": [leaf indices]} (None if the structures cannot be aligned)"""
    import numpy as np
    import jax.tree_util as jtu
    from genjax._src.core.compiler.interpreters.incremental import Diff, NoChange
    leaves = jtu.tree_leaves(rd, is_leaf=lambda x: isinstance(x, Diff))
    flat = []
    for l in leaves:
        if isinstance(l, Diff):
            sub = jtu.tree_leaves(l.primal)
            flat += [(x, l.tangent == NoChange) for x in sub]
        else:
            flat.append((l, True))          # an untagged leaf is a literal: cannot have changed
    old = jtu.tree_leaves(old_retval)
    if len(old) != len(flat):
        return None
    viol = [i for i, ((x, nc), o) in enumerate(zip(flat, old)) if nc and not (np.shape(x) == np.shape(o) and bool(np.all(np.asarray(x) == np.asarray(o))))]
    return {"leaves": len(flat), "nochange": sum(1 for _, nc in flat if nc), "violations": viol}


def tag_tree(t, changed):
    """model tag tree of an argument of type t tagged uniformly"""
    b = "true" if changed else "false"
    if t in ("S", "B", "I"): return f"(TgLeaf {b})"
    if t == "N": return "(TgNode [])"
    if t[0] == "T": return "(TgNode %s)" % clist([tag_tree(x, changed) for x in t[1]])
    if t[0] == "A":
        et = t[2]
        if et == "N": return "(TgNode [])"
        if isinstance(et, tuple) and et[0] == "T":
            return "(TgNode %s)" % clist([tag_tree(("A", t[1], x), changed) for x in et[1]])
        return f"(TgLeaf {b})"
    raise ValueError(t)


def make_argdiffs(jargs, changed):
    from genjax._src.core.compiler.interpreters.incremental import Diff
    return tuple(Diff.unknown_change(x) if ch else Diff.no_change(x) for x, ch in zip(jargs, changed))


def has_IB(t):
    """the type holds a flag or an index (anything a switch index can be computed from)"""
    if t in ("I", "B"): return True
    if isinstance(t, (tuple, list)):
        if t[0] == "T": return any(has_IB(x) for x in t[1])
        if t[0] == "A": return has_IB(t[2])
        if t[0] == "M": return has_IB(t[1])
    return False


def new_args(rng, case, G, cur_args):
    """(args, changed flags): honest tagging — a changed value is always tagged changed, an unchanged one either way"""
    args, changed = [], []
    for v, t in zip(cur_args, case["argt"]):
        mode = rng.random()
        if t == "I" or mode < 0.45:
            args.append(v); changed.append(t != "I" and rng.random() < 0.3)
        else:
            nb = max([len(p[1]) for p in walk(case["core"]) if p[0] == "switch"] + [2])
            nv = G.value(t, nb)
            args.append(nv); changed.append(True if nv != v else rng.random() < 0.5)
    return args, changed


def overlay(rng, ents):
    """a masked constraint (array flag, True) laid over a plain fallback at the same address with `|`: the left, valid
    mask must win (first entry wins in build_chm).  Only the flag-True overlay: with the flag False the fallback would
    constrain, which the model's first-match choice maps do not express."""
    plain = [i for i, (p, v) in enumerate(ents) if not isinstance(v, tuple)]
    if plain and rng.random() < 0.3:
        i = rng.choice(plain)
        p, v = ents[i]
        ents[i] = (p, ("M", True, v, "ar"))
        ents.insert(i + 1, (p, v + rng.choice([-2, -1, 1, 2])))
    return ents


def gen_request(rng, case, present, kind):
    core = case["core"]
    if kind == "update":
        ents = []
        mode = rng.choice(["partial", "partial", "full", "empty"])
        for (p, v) in present:
            if mode == "empty": break
            if mode == "full" or rng.random() < 0.5:
                nv = v if rng.random() < 0.2 else rng.randint(-3, 3)
                if rng.random() < 0.15:
                    ents.append((p, ("M", rng.random() < 0.5, nv, "ar")))
                else:
                    ents.append((p, nv))
        st_ = rng.choice([0, 0, 1])
        if core[0] in ("vmap", "scan") and case.get("lens") and case["lens"][0] > 0 and rng.random() < 0.4:
            st_ = 2
        if st_ != 2:
            ents = overlay(rng, ents)
        return ("update", ents, st_)
    if kind == "regen":
        return ("regen", rng.choice(case["sels"]) if rng.random() < 0.6 else gen_sel(rng, case["ids"]))
    if kind == "empty":
        return ("empty",)
    if kind == "static":
        m = []
        for (a, g, es) in core[1]:
            if rng.random() < 0.6:
                pre = [("s", x) for x in a]
                sub_present = [(p[len(pre):], v) for (p, v) in present if p[:len(pre)] == pre]
                sub_case = dict(case); sub_case["core"] = g
                kk = rng.choice(["update", "update", "empty"] + (["regen"] if kinds_of(g) <= set(EDIT_OK_REGEN) else []))
                m.append((a, gen_request(rng, sub_case, sub_present, kk)))
        return ("static", m)
    if kind == "index":
        n = case["lens"][0]
        i = rng.randrange(n)
        sub_present = [(p[1:], v) for (p, v) in present if p and p[0] == ("i", i)]
        sub_case = dict(case); sub_case["core"] = core[2]
        return ("index", i, gen_request(rng, sub_case, sub_present, "update"))
    raise ValueError(kind)


def edit_kinds(case):
    core = case["core"]
    ks = kinds_of(core)
    out = []
    if ks <= set(EDIT_OK_UPDATE):
        out += ["update", "update", "empty"]
    if ks <= set(EDIT_OK_REGEN):
        out += ["regen", "regen"]
    if core[0] == "static" and ks <= set(EDIT_OK_UPDATE) and "switch" not in ks:
        out += ["static"]
    if core[0] == "vmap" and case["lens"] and case["lens"][0] > 0 and kinds_of(core[2]) <= set(EDIT_OK_UPDATE):
        out += ["index", "index"]
    if core[0] == "scan" and case["lens"] and case["lens"][0] > 0 and kinds_of(core[2]) <= set(EDIT_OK_REGEN):
        out += ["scan_index", "scan_index"]        # Scan.edit_index: not modelled, judged by the direct oracles only
    if core[0] == "switch" and ks <= set(EDIT_OK_UPDATE):
        out += ["switch_index"]                    # an update that changes the index: oracle-only (K19 covers its weight)
    return out

# ---------------------------------------------------------------------------
# execution on the implementation
# ---------------------------------------------------------------------------
def observe(tr, case):
    lk = []
    chm = tr.get_choices()
    for p in case["univ"] + case["junk"]:
        lk.append((p, gfi.lookup(chm, p)))
    for (p, v) in lk:
        if isinstance(v, tuple):
            raise AssertionError(f"lookup {p} -> {v}")
    return {"score": gfi.from_jax(tr.get_score(), "S"), "ret": gfi.from_jax(tr.get_retval(), case["rett"]), "look": lk}


def run_case(case):
    """returns dict(steps=[...]) where each step has kind, inputs and the implementation's observation"""
    import jax
    import jax.numpy as jnp
    import warnings
    warnings.filterwarnings("ignore")
    rng = random.Random(case["rngseed"])
    gfi.set_style_n(case["lens"][0] if case.get("lens") else None)
    try:
        g = gfi.realise(case["prog"])
        jargs = tuple(gfi.to_jax(v, t, st) for v, t, st in zip(case["args"], case["argt"], case["stages"]))
    except Exception as e:
        return {"skip": f"realise: {type(e).__name__}: {e}"}
    steps = []
    traces = []
    key = jax.random.key(case["keyseed"])
    core = case["core"]

    def guarded(fn):
        try:
            return ("ok", fn())
        except AssertionError as e:
            if "lookup" in str(e) or isinstance(e.args[0] if e.args else None, float):
                return ("inexact", str(e))
            return ("err", err_enum(e), f"{type(e).__name__}: {str(e)[:200]}")
        except Exception as e:
            if "Choice and non-Choice in Or" in str(e):
                # the harness built an ill-formed constraint: a value at an address and a (foreign) entry below it —
                # possible when two switch branches use one address as a leaf and as a prefix; not a judged input
                return ("inexact", "ill-formed constraint: " + str(e)[:120])
            return ("err", err_enum(e), f"{type(e).__name__}: {str(e)[:200]}")

    # 1. simulate
    r = guarded(lambda: g.simulate(key, jargs))
    if r[0] != "ok":
        steps.append({"kind": "sim", "seed": case["keyseed"], "res": r})
        if case["flavour"] == "dup":
            # the malformed stream: importance must report the re-used address too
            def do_gen0():
                tr, w = g.importance(jax.random.key(case["keyseed"] + 17), gfi.build_chm([], 0), jargs)
                return tr, (observe(tr, case), gfi.from_jax(w, "S"))
            rg = guarded(do_gen0)
            if rg[0] == "ok":
                rg = ("ok", rg[1][1])
            steps.append({"kind": "gen", "seed": case["keyseed"] + 17, "entries": [], "style": 0, "res": rg})
        return {"steps": steps}
    tr0 = r[1]
    try:
        o0 = observe(tr0, case)
    except AssertionError as e:
        return {"skip": f"inexact: {e}"}
    traces.append(tr0)
    steps.append({"kind": "sim", "seed": case["keyseed"], "res": ("ok", o0)})
    # 2. assess on own choices
    no_assess = has(core, ("mask",)) and masked_iterate_nonfinal(case["prog"])
    if not no_assess:
        r = guarded(lambda: g.assess(tr0.get_choices(), tr0.get_args()))
        if r[0] == "ok":
            try:
                r = ("ok", (gfi.from_jax(r[1][0], "S"), gfi.from_jax(r[1][1], case["rett"])))
            except AssertionError as e:
                r = ("inexact", str(e))
        if case["zero_len"] and r[0] == "err" and r[1] in ("EMissingAddress", "EType"):
            r = ("known", "zero-length-assess", r[2])
        steps.append({"kind": "assess_own", "ti": 0, "res": r})
        # ... and with the arguments as the caller staged them (Python-int indices stay Python ints): same answer
        r = guarded(lambda: g.assess(tr0.get_choices(), jargs))
        if r[0] == "ok":
            try:
                r = ("ok", (gfi.from_jax(r[1][0], "S"), gfi.from_jax(r[1][1], case["rett"])))
            except AssertionError as e:
                r = ("inexact", str(e))
        if case["zero_len"] and r[0] == "err" and r[1] in ("EMissingAddress", "EType"):
            r = ("known", "zero-length-assess", r[2])
        steps.append({"kind": "assess_own", "ti": 0, "res": r, "with": "call arguments"})
    # 3. project with selections
    for s in case["sels"]:
        r = guarded(lambda: gfi.from_jax(tr0.project(jax.random.key(1), gfi.realise_sel(s)), "S"))
        steps.append({"kind": "project", "ti": 0, "sel": s, "res": r})
    # 4. generate with constraints derived from the simulated trace
    present = [(p, v) for (p, v) in o0["look"] if v is not None and p in case["univ"]]
    for gi in range(2):
        ents = []
        mode = rng.choice(["partial", "partial", "full", "empty"])
        for (p, v) in present:
            if mode == "empty": break
            if mode == "full" or rng.random() < 0.5:
                nv = v if rng.random() < 0.3 else rng.randint(-3, 3)
                if rng.random() < 0.2:
                    ents.append((p, ("M", rng.random() < 0.5, nv, rng.choice(["ar", "py"]))))
                else:
                    ents.append((p, nv))
        if rng.random() < 0.2 and case["junk"]:
            ents.append((case["junk"][0], 1))
        kseed = case["keyseed"] + 17 * (gi + 1)
        style = rng.choice([0, 0, 1])
        if core[0] in ("vmap", "scan") and case["lens"] and case["lens"][0] > 0 and rng.random() < 0.4:
            style = 2
            gfi.set_style_n(case["lens"][0])
        if style != 2:
            ents = overlay(rng, ents)

        clos = [None]

        def do_gen():
            chm = gfi.build_chm(ents, style)
            tr, w = g.importance(jax.random.key(kseed), chm, jargs)
            ob = (observe(tr, case), gfi.from_jax(w, "S"))
            if len(jargs) >= 2:
                # the same call through a partially applied function: g(a)(rest) must be g(a, *rest)
                try:
                    tr2, w2 = g(*jargs[:1]).importance(jax.random.key(kseed), chm, tuple(jargs[1:]))
                    ob2 = (observe(tr2, case), gfi.from_jax(w2, "S"))
                    clos[0] = None if json.dumps(ob2, sort_keys=True, default=str) == json.dumps(ob, sort_keys=True, default=str) \
                        else {"closure": ob2, "direct": ob}
                except AssertionError:
                    pass
                except Exception as e:      # noqa: BLE001
                    clos[0] = {"closure_raised": f"{type(e).__name__}: {str(e)[:160]}"}
            return tr, ob
        r = guarded(do_gen)
        if r[0] == "ok":
            traces.append(r[1][0])
            r = ("ok", r[1][1])
        if r[0] == "err" and ents and "Too many indices" in r[2] and switch_prefix_clash(core):
            r = ("known", "switch-branch-prefix-clash", r[2])      # K65
        steps.append({"kind": "gen", "seed": kseed, "entries": ents, "style": style, "res": r, "closure_differs": clos[0]})
        if r[0] == "ok" and not no_assess:
            ti = len(traces) - 1
            trg = traces[ti]
            r2 = guarded(lambda: g.assess(trg.get_choices(), trg.get_args()))
            if r2[0] == "ok":
                try:
                    r2 = ("ok", (gfi.from_jax(r2[1][0], "S"), gfi.from_jax(r2[1][1], case["rett"])))
                except AssertionError as e:
                    r2 = ("inexact", str(e))
            if case["zero_len"] and r2[0] == "err" and r2[1] in ("EMissingAddress", "EType"):
                r2 = ("known", "zero-length-assess", r2[2])
            steps.append({"kind": "assess_own", "ti": ti, "res": r2})
    # 4a. C04: simulate is a function of (key, args); no two sites draw with one key (key-echo probes: every site's
    #     sample is 20 bits of the key it was given)
    def do_again():
        return observe(g.simulate(key, jargs), case)
    steps.append({"kind": "sim_again", "res": guarded(do_again)})

    def do_echo():
        gfi.ECHO_MODE = True
        try:
            ge = gfi.realise(case["prog"])
            tre = ge.simulate(key, jargs)
            vals = []
            chm_e = tre.get_choices()
            for p_ in case["univ"]:
                v = gfi.lookup(chm_e, p_)
                if isinstance(v, int):
                    vals.append((p_, v))
            return vals
        finally:
            gfi.ECHO_MODE = False
    if not has(core, ("switch",)) or True:
        steps.append({"kind": "echo", "res": guarded(do_echo)})
    # 4b. propose with the simulate key (C38), wrappers (C38), get_subtrace at the static sites (C34), assess of partial maps (C22)
    r = guarded(lambda: g.propose(key, jargs))
    if r[0] == "ok":
        try:
            chm_p, sc_p, rv_p = r[1]
            lk = [(p, gfi.lookup(chm_p, p)) for p in case["univ"] + case["junk"]]
            r = ("ok", {"score": gfi.from_jax(sc_p, "S"), "ret": gfi.from_jax(rv_p, case["rett"]), "look": lk})
        except AssertionError as e:
            r = ("inexact", str(e))
    steps.append({"kind": "propose", "seed": case["keyseed"], "res": r})

    def wrappers():
        from genjax import Update, DiffAnnotate, EmptyRequest
        from genjax._src.core.compiler.interpreters.incremental import Diff
        out = {}
        k1 = jax.random.key(5)
        nd = Diff.no_change(jargs)
        sel = gfi.realise_sel(case["sels"][0])
        try:
            out["project"] = [gfi.from_jax(tr0.project(k1, sel), "S"), gfi.from_jax(g.project(k1, tr0, sel), "S")]
        except NotImplementedError:
            out["project"] = None
        ents = [(p, v) for (p, v) in o0["look"] if v is not None and p in case["univ"]][:2]
        chm = gfi.build_chm(ents, 0)
        a = Update(chm).edit(k1, tr0, nd)
        b = tr0.update(k1, chm, nd)
        c = tr0.edit(k1, Update(chm), nd)
        d = DiffAnnotate(Update(chm)).edit(k1, tr0, nd)
        e = g.edit(k1, tr0, Update(chm), nd)
        obs = lambda x: (observe(x[0], case), gfi.from_jax(x[1], "S"))
        out["update_variants"] = [obs(a), obs(b), obs(c), obs(d), obs(e)]
        t1, w1 = g.importance(k1, chm, jargs)
        t2, w2 = g.generate(k1, chm, jargs)
        out["importance_generate"] = [(observe(t1, case), gfi.from_jax(w1, "S")), (observe(t2, case), gfi.from_jax(w2, "S"))]
        t3, w3, _, b3 = EmptyRequest().edit(k1, tr0, nd)
        out["empty_identity"] = [observe(t3, case), gfi.from_jax(w3, "S"), type(b3).__name__]
        return out
    if kinds_of(core) <= set(EDIT_OK_UPDATE) and not has(core, ("switch",)) and not nested_mask(core) and not case["zero_len"]:
        steps.append({"kind": "wrappers", "res": guarded(wrappers)})
    # get_subtrace (C34): every address pattern of the program — first-level sites, nested sites reached through
    # dimap / mask / switch wrappers, and sites under vmap / scan (the stacked subtrace, observed one element at a time)
    pats = sub_patterns(core)
    srng = random.Random(case["rngseed"] + 7)
    if len(pats) > 6:
        first = [q for q in pats if sum(1 for el in q if el[0] == "hop") == 1][:2]
        rest = [q for q in pats if q not in first]
        srng.shuffle(rest)
        pats = first + rest[:4]
    for pat in pats:
        nvec = sum(1 for el in pat if el[0] == "vec")
        insts = pattern_instances(pat, case["univ"]) if nvec else [[]]
        for idx in insts:
            def do_sub(pat=pat, idx=idx):
                import jax.tree_util as jtu
                st = tr0.get_subtrace(*[gfi.addr_name(el[1]) for el in pat if el[0] == "hop"])
                if idx:
                    st = jtu.tree_map(lambda v: v[tuple(idx)], st)
                pre = pattern_prefix(pat, idx)
                rel = [p[len(pre):] for p in case["univ"] if p[:len(pre)] == pre]
                sub_chm = st.get_choices()
                lk = []
                for q in rel:
                    v = gfi.lookup(sub_chm, q)
                    if isinstance(v, tuple):
                        raise AssertionError(f"lookup {q} -> {v}")
                    lk.append((q, v))
                return (gfi.from_jax(st.get_score(), "S"), lk)
            r = guarded(do_sub)
            crossed, seen_vec = False, False
            for el in pat:
                seen_vec = seen_vec or el[0] == "vec"
                crossed = crossed or (el[0] == "switch" and seen_vec)
            if r[0] == "err" and crossed and r[2].startswith(("TypeError", "TracerIntegerConversionError", "IndexError")):
                r = ("known", "switch-subtrace-batched-index", r[2])      # K66
            steps.append({"kind": "subtrace", "ti": 0, "pattern": pat, "idx": idx, "addr": pattern_prefix(pat, idx), "res": r})
    if core[0] == "static":
        # assess with one site's choices removed: MissingAddress exactly when a visited address has no value
        if not no_assess and len(core[1]) >= 1:
            a = core[1][rng.randrange(len(core[1]))][0]
            pre = [("s", x) for x in a]
            ents = [(p, v) for (p, v) in o0["look"] if v is not None and p in case["univ"] and p[:len(pre)] != pre]
            full = [(p, v) for (p, v) in o0["look"] if v is not None and p in case["univ"]]
            for nm, es_ in (("assess_partial", ents), ("assess_full", full)):
                def do_as(es_=es_):
                    sc, rv = g.assess(gfi.build_chm(es_, 0), jargs)
                    return (gfi.from_jax(sc, "S"), gfi.from_jax(rv, case["rett"]))
                steps.append({"kind": nm, "entries": es_, "dropped": a, "res": guarded(do_as)})
    # 5. edits on the simulated trace (and chained on their results), each followed by assess and by its backward request
    kinds = edit_kinds(case)
    if kinds and not case["zero_len"]:
        G = Gen(random.Random(case["rngseed"] + 1))
        cur, cur_obs, cur_args, cur_jargs = tr0, o0, list(case["args"]), jargs
        cur_ti = 0
        for ei in range(2):
            kind = rng.choice(kinds)
            if case["flavour"] == "root:static" and ei == 0 and "static" in kinds:
                kind = "static"        # the targeted stream meets StaticRequest (with changed arguments) in every run
            present = [(p, v) for (p, v) in cur_obs["look"] if v is not None and p in case["univ"]]
            noship = kind in ("scan_index", "switch_index")
            if kind == "scan_index":
                kind = "index"
            if kind == "switch_index":
                q = ("update", [], 0)
                nb_ = len(core[1])
                nargs = list(cur_args)
                nargs[0] = rng.choice([i_ for i_ in range(-1, nb_ + 1) if i_ != cur_args[0]])
                changed = [True] + [False] * (len(cur_args) - 1)
            else:
                q = gen_request(rng, case, present, kind)
            if kind == "switch_index":
                pass
            elif case["flavour"] == "root:dimap" and ei == 0 and case["prog"][0] == "dimap" and case["prog"][1] == [("var", 1)] \
                    and len(cur_args) == 2:
                q = ("empty",)
                nargs, changed = [cur_args[0] + 1 + rng.randint(0, 2), cur_args[1]], [True, False]
            elif kind in ("index",):
                nargs, changed = list(cur_args), [False] * len(cur_args)
            else:
                nargs, changed = new_args(rng, case, G, cur_args)
                if has(core, ("switch",)):
                    # the switch region: index (and the flag an or_else index is computed from) unchanged and tagged
                    # NoChange (index changes: known finding K19)
                    nargs = [(a0 if has_IB(t) else a1) for a0, a1, t in zip(cur_args, nargs, case["argt"])]
                    changed = [(False if has_IB(t) else c_) for c_, t in zip(changed, case["argt"])]
            eseed = case["keyseed"] + 101 * (ei + 1)
            try:
                njargs = tuple(gfi.to_jax(v, t, st) for v, t, st in zip(nargs, case["argt"], case["stages"]))
            except Exception as e:
                break

            def do_edit():
                req = realise_req(q)
                ntr, w, rd, bwd = req.edit(jax.random.key(eseed), cur, make_argdiffs(njargs, changed))
                return ntr, bwd, (observe(ntr, case), gfi.from_jax(w, "S"), observe_bwd(bwd, case), retdiff_check(rd, cur.get_retval()))
            r = guarded(do_edit)
            step = {"kind": "edit", "ti": cur_ti, "seed": eseed, "req": q, "args": nargs, "changed": changed,
                    "old_args": cur_args, "old_obs": cur_obs, "noship": noship}
            if r[0] == "err" and has(core, ("switch",)) and "Custom node type mismatch" in r[2]:
                r = ("known", "switch-edit-retdiff", r[2])
            if r[0] == "err" and "Too many indices" in r[2] and switch_prefix_clash(core):
                r = ("known", "switch-branch-prefix-clash", r[2])      # K65
            if r[0] == "err" and r[2].startswith("AssertionError") and nested_mask(core):
                r = ("known", "mask-of-mask-edit", r[2])      # K26: Mask.build of a Mask whose flag is a Diff
            if r[0] != "ok":
                step["res"] = r
                steps.append(step)
                continue
            ntr, bwd, ob = r[1]
            try:        # the new trace must hold the arguments of the edit (C05: "a trace with the new arguments")
                got_args = [gfi.from_jax(a_, t_) for a_, t_ in zip(ntr.get_args(), case["argt"])]
                args_ok = json.dumps(got_args, default=str) == json.dumps(list(nargs), default=str)
            except Exception:       # noqa: BLE001 - inexact or unreadable: not judged
                got_args, args_ok = None, None
            step["res"] = ("ok", {"trace": ob[0], "weight": ob[1], "bwd": ob[2], "retdiff": ob[3],
                                  "args_ok": args_ok, "trace_args": got_args})
            steps.append(step)
            # C08: the same edit under the other honest tagging of the unchanged arguments gives the same result
            alt = [(c_ if a0 != a1 else (not c_)) for c_, a0, a1 in zip(changed, cur_args, nargs)]
            if has(core, ("switch",)):
                alt = [(False if (has_IB(t_) and a0 == a1) else c_) for c_, t_, a0, a1 in zip(alt, case["argt"], cur_args, nargs)]
            if kind == "index" or noship:
                alt = list(changed)
            if alt != changed:
                def do_alt():
                    req = realise_req(q)
                    ntr2, w2, rd2, bwd2 = req.edit(jax.random.key(eseed), cur, make_argdiffs(njargs, alt))
                    return (observe(ntr2, case), gfi.from_jax(w2, "S"), observe_bwd(bwd2, case), retdiff_check(rd2, cur.get_retval()))
                ra = guarded(do_alt)
                if ra[0] == "err" and has(core, ("switch",)) and "Custom node type mismatch" in ra[2]:
                    ra = ("known", "switch-edit-retdiff", ra[2])
                steps.append({"kind": "tagging", "changed": changed, "alt": alt, "res": ra,
                              "ref": {"trace": ob[0], "weight": ob[1], "bwd": ob[2]}})
            traces.append(ntr)
            new_ti = len(traces) - 1
            edit_index = sum(1 for s_ in steps if s_["kind"] == "edit") - 1
            # assess on own choices
            if not no_assess:
                r2 = guarded(lambda: g.assess(ntr.get_choices(), ntr.get_args()))
                if r2[0] == "ok":
                    try:
                        r2 = ("ok", (gfi.from_jax(r2[1][0], "S"), gfi.from_jax(r2[1][1], case["rett"])))
                    except AssertionError as e:
                        r2 = ("inexact", str(e))
                steps.append({"kind": "assess_own", "ti": new_ti, "res": r2})
            # apply the backward request with the old arguments
            bseed = eseed + 7
            old_jargs = cur_jargs

            def do_bwd():
                btr, bw, _, _ = bwd.edit(jax.random.key(bseed), ntr, make_argdiffs(old_jargs, changed))
                return (observe(btr, case), gfi.from_jax(bw, "S"))
            rb = guarded(do_bwd)
            if rb[0] == "err" and has(core, ("switch",)) and "Custom node type mismatch" in rb[2]:
                rb = ("known", "switch-edit-retdiff", rb[2])
            if rb[0] == "err" and rb[1] == "ENotSupported" and not ob[2]["flat"]:
                rb = ("known", "scan-regen-bwd", rb[2])      # Scan.edit_regenerate returns a VectorRequest no edit accepts (K24)
            steps.append({"kind": "bwd", "ei": edit_index, "seed": bseed, "res": rb, "fwd_weight": ob[1], "orig_obs": cur_obs,
                          "req_kind": q[0], "noship": noship})
            cur, cur_obs, cur_args, cur_jargs, cur_ti = ntr, ob[0], nargs, njargs, new_ti
    # 6. C23: the same calls inside jax.jit, and jax.vmap over keys (a subset of the cases: compilation is slow)
    if case["seed"] % case.get("jit_every", 5) == 0 and not case["zero_len"]:
        def do_jit():
            out = {}
            trj = jax.jit(g.simulate)(key, jargs)
            out["sim"] = observe(trj, case)
            if not no_assess:
                sc, rv = jax.jit(g.assess)(trj.get_choices(), trj.get_args())
                out["assess"] = (gfi.from_jax(sc, "S"), gfi.from_jax(rv, case["rett"]))
            gsteps = [s_ for s_ in steps if s_["kind"] == "gen" and s_["res"][0] == "ok"]
            if gsteps:
                s_ = gsteps[0]
                chm = gfi.build_chm(s_["entries"], s_["style"])
                trg, w = jax.jit(g.importance)(jax.random.key(s_["seed"]), chm, jargs)
                out["gen"] = (observe(trg, case), gfi.from_jax(w, "S"))
            psteps = [s_ for s_ in steps if s_["kind"] == "project" and s_["res"][0] == "ok"]
            if psteps:
                sel = gfi.realise_sel(psteps[0]["sel"])
                out["project"] = gfi.from_jax(jax.jit(lambda k_, t_: t_.project(k_, sel))(jax.random.key(1), tr0), "S")
            return out
        steps.append({"kind": "jit", "res": guarded(do_jit)})

        def do_vmapkeys():
            ks = jax.random.split(jax.random.key(case["keyseed"] + 3), 3)
            batched = jax.vmap(lambda k_: g.simulate(k_, jargs))(ks)
            import jax.tree_util as jtu
            outs = []
            for i in range(3):
                sl = jtu.tree_map(lambda v: v[i], batched)
                single = g.simulate(ks[i], jargs)
                outs.append((observe(sl, case), observe(single, case)))
            return outs
        steps.append({"kind": "vmapkeys", "res": guarded(do_vmapkeys)})
    return {"steps": steps}


def nested_mask(core):
    """a mask applied directly to a generative function whose return value is already a Mask"""
    for p in walk(core):
        if p[0] == "mask":
            g = p[1]
            while g[0] == "dimap" and g[3] == ("var", 2):
                g = g[2]
            if g[0] == "mask":
                return True
    return False


def masked_iterate_nonfinal(p):
    if not isinstance(p, tuple): return False
    if p[0] == "masked_iterate": return True
    for x in p[1:]:
        if isinstance(x, tuple) and masked_iterate_nonfinal(x): return True
        if isinstance(x, list):
            for y in x:
                if isinstance(y, tuple):
                    if masked_iterate_nonfinal(y): return True
                    for z in y:
                        if isinstance(z, tuple) and masked_iterate_nonfinal(z): return True
    return False


def worker_init():
    sys.path.insert(0, os.environ.get("VERIF_REPO", "/repo") + "/src")
    os.environ.setdefault("JAX_PLATFORMS", "cpu")
    import warnings
    warnings.filterwarnings("ignore")


def worker(case):
    if os.environ.get("VERIF_TEST_KILL") == str(case["seed"]) and not os.path.exists("/tmp/verif_killed_once"):
        open("/tmp/verif_killed_once", "w").close()      # self-test of run_cases: this worker dies once
        os._exit(9)
    try:
        return run_case(case)
    except Exception as e:
        return {"skip": f"harness: {type(e).__name__}: {e}\n{traceback.format_exc()[-600:]}"}
    finally:
        try:
            import jax
            jax.clear_caches()        # compiled programs of one case are never reused: keep the worker's memory flat
        except Exception:
            pass


def run_cases(cases, procs=14):
    """the cases on the implementation, in worker processes (core.run_pool: recycled workers, survives a dead worker)"""
    from . import core
    return core.run_pool(worker, cases, procs=procs, initializer=worker_init,
                         on_dead=lambda c: {"skip": "harness: the worker process died three times on this case (memory?)"})


# ---------------------------------------------------------------------------
# Coq literals
# ---------------------------------------------------------------------------
def c_tobs(o, case):
    look = clist([f"({c_path(p)}, {'None' if v is None else '(Some ' + cz(v) + ')'})" for (p, v) in o["look"]])
    return f"{{| o_score := {cz(o['score'])}; o_ret := {c_val(o['ret'], case['rett'])}; o_look := {look} |}}"


def c_want(res, okfn):
    if res[0] == "ok": return f"(WOk {okfn(res[1])})"
    return f"(WErr {res[1]})"


def c_args(case):
    return clist([c_val(v, t) for v, t in zip(case["args"], case["argt"])])


def c_step(st, case, tmap, emap):
    k = st["kind"]
    r = st["res"]
    if k == "sim":
        return f"StSim {st['seed']}%N {c_args(case)} {c_want(r, lambda o: c_tobs(o, case))}"
    if k == "gen":
        return (f"StGen {st['seed']}%N {c_entries(st['entries'])} {c_args(case)} "
                f"{c_want(r, lambda o: '(' + c_tobs(o[0], case) + ', ' + cz(o[1]) + ')')}")
    if k == "assess_own":
        return f"StAssessOwn {tmap[st['ti']]}%nat {c_want(r, lambda o: '(' + cz(o[0]) + ', ' + c_val(o[1], case['rett']) + ')')}"
    if k == "project":
        return f"StProject {tmap[st['ti']]}%nat {c_sel(st['sel'])} {c_want(r, lambda o: cz(o))}"
    if k == "edit":
        args = clist([c_val(v, t) for v, t in zip(st["args"], case["argt"])])
        tags = clist([tag_tree(t, ch) for t, ch in zip(case["argt"], st["changed"])])
        def okfn(o):
            b = o["bwd"]
            look = clist([f"({c_path(p)}, {'None' if v is None else '(Some ' + cz(v) + ')'})" for (p, v) in b["look"]])
            return f"({c_tobs(o['trace'], case)}, {cz(o['weight'])}, {{| b_flat := {cbool(b['flat'])}; b_look := {look} |}})"
        return f"StEdit {tmap[st['ti']]}%nat {st['seed']}%N {c_req(st['req'])} {args} {tags} {c_want(r, okfn)}"
    if k == "propose":
        return f"StPropose {st['seed']}%N {c_args(case)} {c_want(r, lambda o: c_tobs(o, case))}"
    if k == "subtrace":
        def okf(o):
            look = clist([f"({c_path(p)}, {'None' if v is None else '(Some ' + cz(v) + ')'})" for (p, v) in o[1]])
            return f"({cz(o[0])}, {look})"
        hops, k = [], 0
        for el in st["pattern"]:
            if el[0] == "hop":
                hops.append(f"HAddr {gfi.c_addr(el[1])}")
            elif el[0] == "vec":
                hops.append(f"HIdx {st['idx'][k]}%nat"); k += 1
        return f"StSub {tmap[st['ti']]}%nat {clist(hops)} {c_want(r, okf)}"
    if k in ("assess_partial", "assess_full"):
        return (f"StAssess {c_entries(st['entries'])} {c_args(case)} "
                f"{c_want(r, lambda o: '(' + cz(o[0]) + ', ' + c_val(o[1], case['rett']) + ')')}")
    if k == "bwd":
        return f"StBwd {emap[st['ei']]}%nat {st['seed']}%N {c_want(r, lambda o: '(' + c_tobs(o[0], case) + ', ' + cz(o[1]) + ')')}"
    raise ValueError(k)


def shipped_steps(out):
    """the steps that are compared with the model, with the trace / edit indices the model will see.
    returns [(index in out['steps'], step, tmap, emap)]"""
    tmap, emap, res = {}, {}, []
    nt = ne = 0          # harness counters (successful trace-producing steps / edit steps)
    mt = me = 0          # model counters
    for i, s in enumerate(out["steps"]):
        k, tag = s["kind"], s["res"][0]
        ship = tag in ("ok", "err") and k not in ("wrappers", "sim_again", "echo", "jit", "vmapkeys", "tagging") and not s.get("noship")
        if k in ("assess_own", "project", "edit", "subtrace") and s["ti"] not in tmap:
            ship = False
        if k == "bwd" and s["ei"] not in emap:
            ship = False
        if ship:
            res.append((i, s, dict(tmap), dict(emap)))
        if k in ("sim", "gen", "edit") and tag == "ok":
            if ship:
                tmap[nt] = mt; mt += 1
            nt += 1
        if k == "edit":
            if ship:
                emap[ne] = me; me += 1
            ne += 1
    return res


def c_case(case, out):
    steps = shipped_steps(out)
    return f"({c_dgf(case['prog'])},\n  {clist(['(' + c_step(s, case, tm, em) + ')' for (_, s, tm, em) in steps])})"
