(* Model of genjax/_src/core/compiler/interpreters/time_travel.py:
   record points (rec / tag), the hybrid CPS interpreter that peels ONE record
   point per staging (TimeTravelCPSInterpreter.eval_jaxpr_time_travel), the loop
   `_record`, `time_machine`, and the TimeTravelingDebugger (summary / jump /
   fwd / bwd / remix).

   Programs: straight-line integer programs.  A variable is the position of its
   binding (parameters first, then one new variable per statement).  A record
   point `x := rec(g, tag)(args)` calls another program g (nesting).  The library's
   `tag(v, name)` is `rec(lambda v: v, name)(v)`, i.e. `Tag` below.

   What staging does is abstracted as follows: a continuation closure `_kont`
   (remaining equations + a snapshot of the environment) is the pair
   `kont = (prog, env)`; the jaxpr obtained by staging `_cont` (= run the frame's
   callable on the arguments, then the `_kont` chain) is the configuration
   (g, args, list kont).  The interpreter walks a configuration exactly as it
   walks the flat equation list: the first record point met in execution order is
   the one that is peeled.

   No proofs in this file. *)
From Coq Require Import List Bool ZArith Arith.
Import ListNotations.
Open Scope Z_scope.

(* ---- tags: `debug_tag: str | None`; "" and None are falsy in `if debug_tag:` ---- *)
Inductive tag := TNone | TEmpty | TName (n : nat).   (* TName 0 = "_enter", TName 1 = "exit", TName k = "t<k>" *)
Definition truthy (t : tag) : bool := match t with TName _ => true | _ => false end.
Definition tag_eqb (a b : tag) : bool :=
  match a, b with
  | TNone, TNone | TEmpty, TEmpty => true
  | TName n, TName m => Nat.eqb n m
  | _, _ => false
  end.

(* ---- programs ---- *)
Inductive expr := EVar (i : nat) | EConst (z : Z) | EAdd (a b : expr) | ESub (a b : expr) | EMul (a b : expr).
Fixpoint eval (env : list Z) (e : expr) : Z :=
  match e with
  | EVar i => nth i env 0
  | EConst z => z
  | EAdd a b => eval env a + eval env b
  | ESub a b => eval env a - eval env b
  | EMul a b => eval env a * eval env b
  end.

Inductive prog :=
| Ret (e : expr)                                            (* return e *)
| Let (e : expr) (k : prog)                                 (* x := e; k *)
| Rec (t : tag) (g : prog) (args : list expr) (k : prog)    (* x := rec(g, t)(args); k *)
| Call (g : prog) (args : list expr) (k : prog).            (* x := jax.jit(g)(args); k -- a sub-jaxpr bound as ONE
                                                               primitive (pjit; likewise a cond branch or a scan body) *)
Definition Tag (t : tag) (e : expr) (k : prog) : prog := Rec t (Ret (EVar 0)) [e] k.   (* x := tag(e, t); k *)

(* plain execution: calling the Python function.  A record point outside the
   interpreter is RecordPoint.default_call = self.callable(args). *)
Fixpoint eval_prog (p : prog) (env : list Z) : Z :=
  match p with
  | Ret e => eval env e
  | Let e k => eval_prog k (env ++ [eval env e])
  | Rec _ g args k => eval_prog k (env ++ [eval_prog g (map (eval env) args)])
  | Call g args k => eval_prog k (env ++ [eval_prog g (map (eval env) args)])
  end.

(* number of record_p equations the interpreter meets when running p (static: no control
   flow).  Record points inside a Call body sit in the sub-jaxpr of another primitive: the
   interpreter never looks there. *)
Fixpoint count (p : prog) : nat :=
  match p with
  | Ret _ => 0
  | Let _ k => count k
  | Rec _ g _ k => S (count g + count k)
  | Call _ _ k => count k
  end.

(* ---- continuations and frames ---- *)
Definition kont := (prog * list Z)%type.   (* _kont: eqns[eqn_idx+1:], env.copy(); the value is bound to eqn.outvars *)
Definition count_stack (st : list kont) : nat := fold_right (fun k n => (count (fst k) + n)%nat) 0%nat st.

(* FrameRecording(f, args, local_retval, cont); cont = _cont = fun args => _kont (f args),
   represented by the chain of pending _kont's *)
Record frame := mkframe { ff : prog; fargs : list Z; fret : Z; fcont : list kont }.

(* _kont(v) reached with rebind=True: every later record point takes the branch
   `return _kont(cps_prim(..args))`, i.e. plain evaluation up to the end *)
Fixpoint run_stack (v : Z) (st : list kont) : Z :=
  match st with
  | [] => v
  | (k, env) :: st' => run_stack (eval_prog k (env ++ [v])) st'
  end.
(* RecordPoint.handle._cont *)
Definition run_cont (g : prog) (st : list kont) (a : list Z) : Z := run_stack (eval_prog g a) st.

(* RecordPoint.handle(cont, ..args) *)
Definition handle (t : tag) (g : prog) (a : list Z) (st : list kont) : Z * (tag * frame) :=
  let ret := eval_prog g a in
  let final_ret := run_cont g st a in
  (final_ret, (t, mkframe g a ret st)).

(* eval_jaxpr_iterate_cps with rebind=False, on the equations of one program:
   ordinary equations are evaluated; the first record_p equation returns
   cps_prim.handle(_kont, ..args) *)
Fixpoint iter_prog (p : prog) (env : list Z) (st : list kont) : Z + Z * (tag * frame) :=
  match p with
  | Ret e => inl (eval env e)
  | Let e k => iter_prog k (env ++ [eval env e]) st
  | Rec t g args k => inr (handle t g (map (eval env) args) ((k, env) :: st))
  | Call g args k =>        (* `else: outs = eqn.primitive.bind(..args, ..params)`: the sub-jaxpr runs as a whole;
                               a record point in it is RecordPoint.default_call *)
      iter_prog k (env ++ [eval_prog g (map (eval env) args)]) st
  end.
(* ... continuing through the equations contributed by the pending continuations;
   without any record point: `return retval, None` *)
Fixpoint iter_stack (v : Z) (st : list kont) : Z * option (tag * frame) :=
  match st with
  | [] => (v, None)
  | (k, env) :: st' =>
      match iter_prog k (env ++ [v]) st' with
      | inl v' => iter_stack v' st'
      | inr (r, nx) => (r, Some nx)
      end
  end.
(* time_travel(source)(..args): source = a program (st = []) or a frame's cont *)
Definition time_travel (g : prog) (st : list kont) (a : list Z) : Z * option (tag * frame) :=
  match iter_prog g a st with
  | inl v => iter_stack v st
  | inr (r, nx) => (r, Some nx)
  end.

(* ---- jump_points: a dict ---- *)
Definition dict := list (tag * nat).
Fixpoint dict_set (d : dict) (t : tag) (i : nat) : dict :=
  match d with
  | [] => [(t, i)]
  | (t', j) :: r => if tag_eqb t' t then (t', i) :: r else (t', j) :: dict_set r t i
  end.
Fixpoint dict_get (d : dict) (t : tag) : option nat :=
  match d with
  | [] => None
  | (t', j) :: r => if tag_eqb t' t then Some j else dict_get r t
  end.
(* {v: k for (k, v) in jump_points.items()}.get(ptr, None) *)
Definition rev_get (d : dict) (i : nat) : tag :=
  fold_left (fun acc tj => if Nat.eqb (snd tj) i then fst tj else acc) d TNone.

Record debugger := mkdbg { final : Z; dseq : list frame; jp : dict; ptr : nat }.

(* _record: `while next:` ; fuel = number of record points still ahead + 1 *)
Fixpoint record_loop (fuel : nat) (retval : Z) (next : option (tag * frame)) (sq : list frame) (j : dict)
  : option (Z * list frame * dict) :=
  match next with
  | None => Some (retval, sq, j)
  | Some (t, fr) =>
      match fuel with
      | O => None
      | S fuel' =>
          let sq' := sq ++ [fr] in
          let j' := if truthy t then dict_set j t (length sq' - 1)%nat else j in
          let '(retval', next') := time_travel (ff fr) (fcont fr) (fargs fr) in
          record_loop fuel' retval' next' sq' j'
      end
  end.
Definition record (g : prog) (st : list kont) (a : list Z) : option debugger :=
  let '(rv, nx) := time_travel g st a in
  match record_loop (S (count g + count_stack st)) rv nx [] [] with
  | Some (rv', sq, j) => Some (mkdbg rv' sq j 0)
  | None => None                         (* out of fuel: never (TimeTravelProofs.record_total) *)
  end.

(* time_machine: instrumented(..args) = tag(rec(source, "_enter")(..args), "exit") *)
Definition instrument (p : prog) (n : nat) : prog :=
  Rec (TName 0) p (map EVar (seq 0 n)) (Tag (TName 1) (EVar n) (Ret (EVar (S n)))).
Definition time_machine (p : prog) (a : list Z) : option debugger := record (instrument p (length a)) [] a.

(* ---- TimeTravelingDebugger ---- *)
Inductive err := EKey | EIndex | EType | EFuel | EOther.
Inductive result (A : Type) := Ok (x : A) | Err (e : err).
Arguments Ok {A}. Arguments Err {A}.

(* summary(): (final_retval, (jump_tag, frame)); sequence[ptr] may raise IndexError *)
Definition summary (d : debugger) : result (Z * (tag * frame)) :=
  match nth_error (dseq d) (ptr d) with
  | None => Err EIndex
  | Some fr => Ok (final d, (rev_get (jp d) (ptr d), fr))
  end.
(* jump(debug_tag: str): beartype rejects None; jump_points[debug_tag] may raise KeyError *)
Definition jump (d : debugger) (t : tag) : result debugger :=
  match t with
  | TNone => Err EType
  | _ => match dict_get (jp d) t with
         | None => Err EKey
         | Some i => Ok (mkdbg (final d) (dseq d) (jp d) i)
         end
  end.
Definition fwd (d : debugger) : debugger :=
  let new_ptr := S (ptr d) in
  if (length (dseq d) <=? new_ptr)%nat then d else mkdbg (final d) (dseq d) (jp d) new_ptr.
Definition bwd (d : debugger) : debugger :=
  match ptr d with
  | O => d                                            (* new_ptr < 0 *)
  | S q => if (length (dseq d) <=? q)%nat then d else mkdbg (final d) (dseq d) (jp d) q
  end.
(* remix(..args): f(..args) raises TypeError unless as many arguments as f was recorded with *)
Definition remix (d : debugger) (a : list Z) : result debugger :=
  match nth_error (dseq d) (ptr d) with
  | None => Err EIndex
  | Some fr =>
      if negb (Nat.eqb (length a) (length (fargs fr))) then Err EType else
      let local_retval := eval_prog (ff fr) a in
      match record (ff fr) (fcont fr) a with
      | None => Err EFuel
      | Some d' =>
          let new_frame := mkframe (ff fr) a local_retval (fcont fr) in
          Ok (mkdbg (final d') (firstn (ptr d) (dseq d) ++ [new_frame] ++ dseq d') (jp d) (ptr d))
      end
  end.

(* ---- correspondence cases ---- *)
Inductive cmd := CJump (t : tag) | CFwd | CBwd | CRemix (a : list Z).
Definition step (d : debugger) (c : cmd) : result debugger :=
  match c with
  | CJump t => jump d t
  | CFwd => Ok (fwd d)
  | CBwd => Ok (bwd d)
  | CRemix a => remix d a
  end.

(* what the harness observes of a debugger *)
Record ostate := mkost {
  o_final : Z; o_ptr : nat; o_jp : dict;
  o_frames : list (list Z * Z);                 (* (args, local_retval) per frame *)
  o_summ : option (Z * tag * list Z * Z) }.     (* summary(): None = IndexError *)
Inductive outcome := OErr (e : err) | OOk (s : ostate).
Inductive ttcase := TTCase (tm : bool) (p : prog) (a : list Z) (init : ostate) (script : list (cmd * outcome)).

Fixpoint list_eqb {A} (eq : A -> A -> bool) (a b : list A) : bool :=
  match a, b with [], [] => true | x :: r, y :: s => eq x y && list_eqb eq r s | _, _ => false end.
Definition err_eqb (a b : err) : bool :=
  match a, b with
  | EKey, EKey | EIndex, EIndex | EType, EType | EFuel, EFuel | EOther, EOther => true
  | _, _ => false
  end.
Definition dict_same (a b : dict) : bool :=     (* as finite maps: dict order is not compared *)
  Nat.eqb (length a) (length b) &&
  forallb (fun ti => match dict_get b (fst ti) with Some j => Nat.eqb j (snd ti) | None => false end) a.
Definition frame_obs_eqb (f : frame) (o : list Z * Z) : bool :=
  list_eqb Z.eqb (fargs f) (fst o) && Z.eqb (fret f) (snd o).
Definition summ_ok (d : debugger) (o : option (Z * tag * list Z * Z)) : bool :=
  match summary d, o with
  | Err EIndex, None => true
  | Ok (fin, (t, fr)), Some (fin', t', a', r') =>
      Z.eqb fin fin' && tag_eqb t t' && list_eqb Z.eqb (fargs fr) a' && Z.eqb (fret fr) r'
  | _, _ => false
  end.
Definition state_ok (d : debugger) (o : ostate) : bool :=
  Z.eqb (final d) (o_final o) && Nat.eqb (ptr d) (o_ptr o) && dict_same (jp d) (o_jp o) &&
  Nat.eqb (length (dseq d)) (length (o_frames o)) &&
  forallb (fun fo => frame_obs_eqb (fst fo) (snd fo)) (combine (dseq d) (o_frames o)) &&
  summ_ok d (o_summ o).
(* a command that raises leaves the caller with the debugger it had *)
Fixpoint script_ok (d : debugger) (s : list (cmd * outcome)) : bool :=
  match s with
  | [] => true
  | (c, o) :: r =>
      match step d c, o with
      | Err e, OErr e' => err_eqb e e' && script_ok d r
      | Ok d', OOk os => state_ok d' os && script_ok d' r
      | _, _ => false
      end
  end.
Definition ttcase_ok (c : ttcase) : bool :=
  match c with
  | TTCase tm p a init script =>
      match (if tm then time_machine p a else record p [] a) with
      | None => false
      | Some d => state_ok d init && script_ok d script
      end
  end.
Fixpoint ttmismatches_from (n : nat) (cs : list ttcase) : list nat :=
  match cs with
  | [] => []
  | c :: r => if ttcase_ok c then ttmismatches_from (S n) r else n :: ttmismatches_from (S n) r
  end.
Definition ttmismatches := ttmismatches_from 0.
