(* C16 — masked iteration steps with a false mask are inert.
   masked_chain step ms i x ts xf: "for t in ts: x = step(x) if ms[i] else x" ends with xf, t's inner call is a
   well-formed execution of step on [x]; the score counts live steps only. *)
From Coq Require Import List ZArith.
Import ListNotations.
From Gen Require Import SelGen.
From Model Require Import Key Sel GFI GFIEdit Derived.
From Proofs Require Import GFIBase GFIRef GFIWf GFIConsistent GFIProject GFISim GFIGen GFIEditProofs GFIEditChoices GFIDerived GFICombinators.
Open Scope Z_scope.

Theorem C16_masked_iterate_final_is_its_loop : forall step t,
  wft (g_masked_iterate_final step) t ->
  exists init ms rest ts, t_args t = init :: ms :: rest /\
    ((forall t0, In t0 ts -> forall g v, t_retval (masked_inner t0) <> VM g v) ->
     masked_chain step ms 0 init ts (t_retval t) /\
     t_score t = zsum (map (fun t0 => if masked_flag t0 then t_score (masked_inner t0) else 0) ts)).
Proof. exact masked_iterate_final_is_loop. Qed.
Print Assumptions C16_masked_iterate_final_is_its_loop.

Theorem C16_masked_off_step_scores_nothing : forall g c a l v,
  ref (GMask g) c (VB false :: a) = Ok (l, v) -> l = [].
Proof. exact ref_mask_false. Qed.
Print Assumptions C16_masked_off_step_scores_nothing.

Theorem C16_every_operation_yields_such_traces : forall g t, produced g t -> wft g t.
Proof. exact produced_wft. Qed.
Print Assumptions C16_every_operation_yields_such_traces.

(* ---- non-vacuity: concrete non-trivial programs and traces meeting the hypotheses above (proofs/GFIWitness.v) ---- *)
From Proofs Require Import GFIWitness.
Example C16_hypotheses_met :
  (let t := tr_of (g_masked_iterate_final ex_step) [VZ 2; VA [VB true; VB false; VB true]] in
   wft (g_masked_iterate_final ex_step) t /\ length (t_choices t) = 3%nat) /\
  (let t := tr_of (g_masked_iterate ex_step) [VZ 2; VA [VB true; VB false; VB true]] in
   wft (g_masked_iterate ex_step) t /\ length (t_choices t) = 3%nat).
Proof. exact (conj ex_masked_iterate_final_wft ex_masked_iterate_wft). Qed.
Print Assumptions C16_hypotheses_met.
