(* C09 / C36: the incremental and the stateful interpreter against ordinary
   evaluation, for every jaxpr and every primitive semantics.  Simulation proofs:
   an invariant relates the cells of two environments variable by variable and is
   preserved by every equation. *)
From Coq Require Import List Bool ZArith Lia Arith.
Import ListNotations.
From Model Require Import Jaxpr Stateful Incr JaxPrims.

(* ---- option relations ---- *)
Definition orel {A B} (R : A -> B -> Prop) (x : option A) (y : option B) : Prop :=
  match x, y with Some a, Some b => R a b | None, None => True | _, _ => False end.

Lemma mapM_rel {X A B} (R : A -> B -> Prop) (f : X -> option A) (g : X -> option B) l :
  (forall x, orel R (f x) (g x)) -> orel (Forall2 R) (mapM f l) (mapM g l).
Proof.
  intros H. induction l as [|x l IH]; simpl; [constructor|].
  specialize (H x). destruct (f x), (g x); simpl in H; try contradiction; auto.
  destruct (mapM f l), (mapM g l); simpl in *; try contradiction; auto.
Qed.

Lemma Forall2_eq {A} (l m : list A) : Forall2 eq l m -> l = m.
Proof. induction 1; congruence. Qed.

(* ---- the environment as a lookup function ---- *)
Lemma env_get_set {C} (e : env C) n c m :
  env_get (env_set e n c) m = if Nat.eqb n m then Some c else env_get e m.
Proof.
  induction e as [|[k d] e IH]; simpl.
  - reflexivity.
  - destruct (Nat.eqb k n) eqn:E; simpl.
    + apply Nat.eqb_eq in E; subst. destruct (Nat.eqb n m); reflexivity.
    + destruct (Nat.eqb k m) eqn:E2.
      * apply Nat.eqb_eq in E2; subst. rewrite Nat.eqb_sym, E. reflexivity.
      * apply IH.
Qed.

Definition frel {A B} (R : A -> B -> Prop) (f : nat -> option A) (g : nat -> option B) : Prop :=
  forall n, orel R (f n) (g n).

Section TwoEnvs.
  (* two interpreter environments (dict on var.count) *)
  Context {val C D : Type} (R : C -> D -> Prop) (lc : val -> C) (ld : val -> D).
  Hypothesis Rlit : forall v, R (lc v) (ld v).

  Lemma write_rel e e' (a : atom val) c d :
    frel R (env_get e) (env_get e') -> R c d -> frel R (env_get (write e a c)) (env_get (write e' a d)).
  Proof.
    intros H Hc. destruct a; simpl; auto. intros m. rewrite !env_get_set.
    destruct (Nat.eqb n m); simpl; auto; apply H.
  Qed.
  Lemma write_many_rel (vs : list (atom val)) : forall e e' cs ds,
    frel R (env_get e) (env_get e') -> Forall2 R cs ds ->
    orel (fun a b => frel R (env_get a) (env_get b)) (write_many e vs cs) (write_many e' vs ds).
  Proof.
    induction vs as [|v vs IH]; intros e e' cs ds H H2; destruct H2; simpl; auto.
    apply IH; auto. apply write_rel; auto.
  Qed.
  Lemma read_rel e e' (a : atom val) :
    frel R (env_get e) (env_get e') -> orel R (read lc e a) (read ld e' a).
  Proof. intros H. destruct a; simpl; auto; apply H. Qed.
  Lemma read_many_rel e e' (vs : list (atom val)) :
    frel R (env_get e) (env_get e') -> orel (Forall2 R) (read_many lc e vs) (read_many ld e' vs).
  Proof. intros H. apply mapM_rel. intros a. apply read_rel, H. Qed.
End TwoEnvs.

Section EnvRef.
  (* an interpreter environment against the functional one of eval_ref *)
  Context {val C : Type} (R : C -> val -> Prop) (lc : val -> C).
  Hypothesis Rlit : forall v, R (lc v) v.

  Lemma rwrite_rel e r (a : atom val) c v :
    frel R (env_get e) r -> R c v -> frel R (env_get (write e a c)) (rwrite r a v).
  Proof.
    intros H Hc. destruct a; simpl; auto. intros m. rewrite env_get_set, (Nat.eqb_sym m n).
    destruct (Nat.eqb n m); simpl; auto; apply H.
  Qed.
  Lemma rwrite_many_rel (vs : list (atom val)) : forall e r cs xs,
    frel R (env_get e) r -> Forall2 R cs xs ->
    orel (fun a b => frel R (env_get a) b) (write_many e vs cs) (rwrite_many r vs xs).
  Proof.
    induction vs as [|v vs IH]; intros e r cs xs H H2; destruct H2; simpl; auto.
    apply IH; auto. apply rwrite_rel; auto.
  Qed.
  Lemma rread_rel e r (a : atom val) :
    frel R (env_get e) r -> orel R (read lc e a) (rread r a).
  Proof. intros H. destruct a; simpl; auto; apply H. Qed.
  Lemma rread_many_rel e r (vs : list (atom val)) :
    frel R (env_get e) r -> orel (Forall2 R) (read_many lc e vs) (mapM (rread r) vs).
  Proof. intros H. apply mapM_rel. intros a. apply rread_rel, H. Qed.
End EnvRef.

Lemma frel_empty {A B} (R : A -> B -> Prop) : frel R (env_get (@nil (nat * A))) (fun _ => None).
Proof. intros n; exact I. Qed.
Lemma frel_empty2 {A B} (R : A -> B -> Prop) : frel R (env_get (@nil (nat * A))) (env_get (@nil (nat * B))).
Proof. intros n; exact I. Qed.

Lemma write_many_length {val C} vs : forall (e : env C) cs e',
  write_many (val:=val) e vs cs = Some e' -> length cs = length vs.
Proof.
  induction vs as [|v vs IH]; intros e [|c cs] e' H; simpl in *; try discriminate; auto.
  f_equal. eapply IH; eauto.
Qed.

(* ======================================================================== *)
(* C36: stateful interpreter with a handler that handles nothing            *)
(* ======================================================================== *)
Section StatefulNull.
  Context {prim val : Type} (psem : prim -> list val -> option (list val)).
  Variables (handles : prim -> bool) (dispatch : prim -> list val -> option (list val)).

  Lemma Forall2_eq_refl (l : list val) : Forall2 eq l l.
  Proof. induction l; constructor; auto. Qed.

  Lemma st_eqn_ref e r q :
    handles (e_prim q) = false -> frel eq (env_get e) r ->
    orel (fun a b => frel eq (env_get a) b) (st_eqn psem handles dispatch e q) (ref_eqn psem r q).
  Proof.
    intros Hh H. unfold st_eqn, ref_eqn. rewrite Hh.
    pose proof (rread_many_rel eq (fun v : val => v) (fun v => eq_refl) e r (e_in q) H) as Hr.
    destruct (read_many _ e (e_in q)) as [ins|], (mapM (rread r) (e_in q)) as [ins'|]; simpl in *; try contradiction; auto.
    apply Forall2_eq in Hr; subst ins'.
    destruct (psem (e_prim q) ins) as [outs|]; simpl; auto.
    apply rwrite_many_rel; auto. apply Forall2_eq_refl.
  Qed.

  Lemma st_eqns_ref qs : forall e r,
    (forall q, In q qs -> handles (e_prim q) = false) -> frel eq (env_get e) r ->
    orel (fun a b => frel eq (env_get a) b) (st_eqns psem handles dispatch e qs) (ref_eqns psem r qs).
  Proof.
    induction qs as [|q qs IH]; intros e r Hh H; simpl; auto.
    pose proof (st_eqn_ref e r q (Hh q (or_introl eq_refl)) H) as H1.
    destruct (st_eqn psem handles dispatch e q), (ref_eqn psem r q); simpl in *; try contradiction; auto.
    all: try (apply IH; auto; intros q' Hin; apply Hh; right; exact Hin).
  Qed.

  Theorem stateful_null_handler j consts args :
    (forall q, In q (j_eqns j) -> handles (e_prim q) = false) ->
    eval_stateful psem handles dispatch j consts args = eval_ref psem j consts args.
  Proof.
    intros Hh. unfold eval_stateful, eval_ref.
    pose proof (rwrite_many_rel eq (j_const j) [] (fun _ => None) consts consts (frel_empty eq) (Forall2_eq_refl consts)) as H1.
    unfold rempty.
    destruct (write_many [] (j_const j) consts) as [e1|], (rwrite_many (fun _ => None) (j_const j) consts) as [r1|];
      simpl in *; try contradiction; auto.
    pose proof (rwrite_many_rel eq (j_in j) e1 r1 args args H1 (Forall2_eq_refl args)) as H2.
    destruct (write_many e1 (j_in j) args) as [e2|], (rwrite_many r1 (j_in j) args) as [r2|];
      simpl in *; try contradiction; auto.
    pose proof (st_eqns_ref (j_eqns j) e2 r2 Hh H2) as H3.
    destruct (st_eqns psem handles dispatch e2 (j_eqns j)) as [e3|], (ref_eqns psem r2 (j_eqns j)) as [r3|];
      simpl in *; try contradiction; auto.
    pose proof (rread_many_rel eq (fun v : val => v) (fun v => eq_refl) e3 r3 (j_out j) H3) as H4.
    destruct (read_many _ e3 (j_out j)), (mapM (rread r3) (j_out j)); simpl in *; try contradiction; auto.
    apply Forall2_eq in H4. congruence.
  Qed.
End StatefulNull.

(* ======================================================================== *)
(* C09: incremental interpreter                                             *)
(* ======================================================================== *)
Section IncrProofs.
  Context {prim val : Type} (psem : prim -> list val -> option (list val)).
  Notation cellv := (cell val).

  (* no handler, or one that handles none of the jaxpr's primitives *)
  Definition null_handler (h : handler prim val) (j : jaxpr prim val) : Prop :=
    forall q, In q (j_eqns j) -> h_handles h (e_prim q) = false.

  Lemma incr_eqn_default h e q :
    h_handles h (e_prim q) = false ->
    incr_eqn psem h e q =
    obind (read_many (fun v : val => Raw v) e (e_in q)) (fun ins =>
    obind (default_propagation_rule psem (e_prim q) (map to_diff ins)) (fun outs =>
    write_many e (e_out q) outs)).
  Proof.
    intros H. unfold incr_eqn. destruct h as [[hs disp]|]; simpl in *; [rewrite H|]; reflexivity.
  Qed.

  (* ---- primal outputs = ordinary evaluation ---- *)
  Definition Rp (c : cellv) (v : val) : Prop := primal c = v.

  Lemma primal_to_diff (c : cellv) : primal (to_diff c) = primal c.
  Proof. destruct c; reflexivity. Qed.

  Lemma Rp_primals cs vs : Forall2 Rp cs vs -> map primal (map to_diff cs) = vs.
  Proof. induction 1; simpl; auto. rewrite primal_to_diff. unfold Rp in H. congruence. Qed.

  Lemma Rp_tagged t (outs : list val) : Forall2 Rp (map (fun v => Diff v t) outs) outs.
  Proof. induction outs; simpl; constructor; auto. reflexivity. Qed.

  Lemma incr_eqn_ref h e r q :
    h_handles h (e_prim q) = false -> frel Rp (env_get e) r ->
    orel (fun a b => frel Rp (env_get a) b) (incr_eqn psem h e q) (ref_eqn psem r q).
  Proof.
    intros Hh H. rewrite incr_eqn_default by exact Hh. unfold ref_eqn.
    pose proof (rread_many_rel Rp (fun v : val => Raw v) (fun v => eq_refl) e r (e_in q) H) as Hr.
    destruct (read_many _ e (e_in q)) as [ins|], (mapM (rread r) (e_in q)) as [ins'|]; simpl in *; try contradiction; auto.
    unfold default_propagation_rule. rewrite (Rp_primals _ _ Hr).
    destruct (psem (e_prim q) ins') as [outs|]; simpl; auto.
    apply rwrite_many_rel; auto. apply Rp_tagged.
  Qed.

  Lemma incr_eqns_ref h qs : forall e r,
    (forall q, In q qs -> h_handles h (e_prim q) = false) -> frel Rp (env_get e) r ->
    orel (fun a b => frel Rp (env_get a) b) (incr_eqns psem h e qs) (ref_eqns psem r qs).
  Proof.
    induction qs as [|q qs IH]; intros e r Hh H; simpl; auto.
    pose proof (incr_eqn_ref h e r q (Hh q (or_introl eq_refl)) H) as H1.
    destruct (incr_eqn psem h e q), (ref_eqn psem r q); simpl in *; try contradiction; auto.
    all: try (apply IH; auto; intros q' Hin; apply Hh; right; exact Hin).
  Qed.

  Lemma tree_diff_some (xs : list val) : forall ts, length ts = length xs ->
    exists ds, tree_diff xs ts = Some ds /\ Forall2 Rp ds xs /\ map shape_of ds = map SDiff ts.
  Proof.
    induction xs as [|x xs IH]; intros [|t ts] L; simpl in *; try discriminate.
    - exists []. repeat split; constructor.
    - destruct (IH ts) as [ds [E [F S]]]; [lia|]. rewrite E. exists (Diff x t :: ds). simpl.
      repeat split; [constructor; [reflexivity|exact F] | now rewrite S].
  Qed.

  Theorem incr_primal h j consts xs ts :
    null_handler h j -> length ts = length xs ->
    option_map (map primal) (eval_incr psem h j consts xs ts) = eval_ref psem j consts xs.
  Proof.
    intros Hh L. unfold eval_incr, eval_ref.
    pose proof (rwrite_many_rel Rp (j_const j) [] (fun _ => None) (map (fun c => Diff c NoChange) consts) consts
                  (frel_empty Rp) (Rp_tagged NoChange consts)) as H1.
    unfold rempty.
    destruct (write_many [] (j_const j) _) as [e1|], (rwrite_many (fun _ => None) (j_const j) consts) as [r1|];
      simpl in *; try contradiction; auto.
    destruct (tree_diff_some xs ts L) as [ds [E [F _]]]. rewrite E. simpl.
    pose proof (rwrite_many_rel Rp (j_in j) e1 r1 ds xs H1 F) as H2.
    destruct (write_many e1 (j_in j) ds) as [e2|], (rwrite_many r1 (j_in j) xs) as [r2|];
      simpl in *; try contradiction; auto.
    pose proof (incr_eqns_ref h (j_eqns j) e2 r2 Hh H2) as H3.
    destruct (incr_eqns psem h e2 (j_eqns j)) as [e3|], (ref_eqns psem r2 (j_eqns j)) as [r3|];
      simpl in *; try contradiction; auto.
    pose proof (rread_many_rel Rp (fun v : val => Raw v) (fun v => eq_refl) e3 r3 (j_out j) H3) as H4.
    destruct (read_many _ e3 (j_out j)) as [outs|], (mapM (rread r3) (j_out j)) as [vs|]; simpl in *; try contradiction; auto.
    f_equal. clear -H4. induction H4; simpl; auto. unfold Rp in H. congruence.
  Qed.

  (* ---- tags are decided by the structure alone ---- *)
  Definition Rs (c : cellv) (s : shape) : Prop := shape_of c = s.

  Lemma Rs_check cs ss : Forall2 Rs cs ss ->
    static_check_no_change (map to_diff cs) = forallb (fun s => is_no_change (shape_tangent s)) ss.
  Proof.
    unfold static_check_no_change.
    induction 1 as [|c s cs ss Hc _ IH]; simpl; auto. rewrite IH.
    f_equal. unfold Rs in Hc. subst s. destruct c; reflexivity.
  Qed.

  Lemma Rs_tagged {X} t (outs : list val) (vs : list X) : length outs = length vs ->
    Forall2 Rs (map (fun v => Diff v t) outs) (map (fun _ => SDiff t) vs).
  Proof.
    revert vs; induction outs as [|o outs IH]; intros [|v vs] L; simpl in *; try discriminate; constructor.
    - reflexivity.
    - apply IH; lia.
  Qed.

  Lemma incr_eqn_tags h e te q e1 :
    h_handles h (e_prim q) = false -> frel Rs (env_get e) (env_get te) ->
    incr_eqn psem h e q = Some e1 ->
    exists te1, tag_eqn te q = Some te1 /\ frel Rs (env_get e1) (env_get te1).
  Proof.
    intros Hh H. rewrite incr_eqn_default by exact Hh. unfold tag_eqn.
    pose proof (read_many_rel Rs (fun v : val => Raw v) (fun _ : val => SRaw) (fun v => eq_refl) e te (e_in q) H) as Hr.
    destruct (read_many _ e (e_in q)) as [ins|], (read_many _ te (e_in q)) as [ss|]; simpl in *; try contradiction; try discriminate.
    unfold default_propagation_rule. rewrite (Rs_check _ _ Hr).
    destruct (psem (e_prim q) _) as [outs|]; simpl; [|discriminate].
    intros Hw. pose proof (write_many_length _ _ _ _ Hw) as L. rewrite map_length in L.
    set (t := if forallb _ ss then NoChange else UnknownChange) in *.
    pose proof (write_many_rel Rs (e_out q) e te _ _ H (Rs_tagged t outs (e_out q) L)) as H2.
    rewrite Hw in H2. destruct (write_many te (e_out q) _) as [te1|]; simpl in H2; [|contradiction].
    exists te1. split; auto.
  Qed.

  Lemma incr_eqns_tags h qs : forall e te e1,
    (forall q, In q qs -> h_handles h (e_prim q) = false) -> frel Rs (env_get e) (env_get te) ->
    incr_eqns psem h e qs = Some e1 ->
    exists te1, tag_eqns te qs = Some te1 /\ frel Rs (env_get e1) (env_get te1).
  Proof.
    induction qs as [|q qs IH]; intros e te e1 Hh H; simpl.
    - intros E; inversion E; subst. exists te; auto.
    - destruct (incr_eqn psem h e q) as [e'|] eqn:E1; simpl; [|discriminate]. intros E2.
      destruct (incr_eqn_tags h e te q e' (Hh q (or_introl eq_refl)) H E1) as [te' [T1 H1]].
      rewrite T1. simpl. eapply IH; eauto. intros q' Hin. apply Hh. right; exact Hin.
  Qed.

  Lemma tree_diff_shape (xs : list val) : forall ts ds, tree_diff xs ts = Some ds ->
    Forall2 Rs ds (map SDiff ts).
  Proof.
    induction xs as [|x xs IH]; intros [|t ts] ds; simpl; try discriminate.
    - intros E; inversion E; constructor.
    - destruct (tree_diff xs ts) as [ds'|] eqn:E; simpl; [|discriminate].
      intros E2; inversion E2; subst. constructor; [reflexivity|]. apply IH; auto.
  Qed.

  Theorem incr_tags_static h j consts xs ts outs :
    null_handler h j -> eval_incr psem h j consts xs ts = Some outs ->
    tags_static j ts = Some (map shape_of outs).
  Proof.
    intros Hh. unfold eval_incr, tags_static.
    destruct (write_many [] (j_const j) (map _ consts)) as [e1|] eqn:W1; simpl; [|discriminate].
    pose proof (write_many_length _ _ _ _ W1) as L1. rewrite map_length in L1.
    pose proof (write_many_rel Rs (j_const j) [] [] _ _ (frel_empty2 Rs) (Rs_tagged NoChange consts (j_const j) L1)) as H1.
    rewrite W1 in H1. destruct (write_many [] (j_const j) (map _ (j_const j))) as [t1|]; simpl in H1; [|contradiction].
    simpl. destruct (tree_diff xs ts) as [ds|] eqn:TD; simpl; [|discriminate].
    destruct (write_many e1 (j_in j) ds) as [e2|] eqn:W2; simpl; [|discriminate].
    pose proof (write_many_rel Rs (j_in j) e1 t1 _ _ H1 (tree_diff_shape xs ts ds TD)) as H2.
    rewrite W2 in H2. destruct (write_many t1 (j_in j) (map SDiff ts)) as [t2|]; simpl in H2; [|contradiction].
    simpl. destruct (incr_eqns psem h e2 (j_eqns j)) as [e3|] eqn:E3; simpl; [|discriminate].
    destruct (incr_eqns_tags h (j_eqns j) e2 t2 e3 Hh H2 E3) as [t3 [T3 H3]]. rewrite T3. simpl.
    pose proof (read_many_rel Rs (fun v : val => Raw v) (fun _ : val => SRaw) (fun v => eq_refl) e3 t3 (j_out j) H3) as H4.
    intros E4. rewrite E4 in H4. destruct (read_many _ t3 (j_out j)) as [ss|]; simpl in H4; [|contradiction].
    f_equal. clear -H4. induction H4; simpl; auto. unfold Rs in H. congruence.
  Qed.

  (* ---- noninterference ---- *)
  (* two cells of two runs: same kind and tag; equal values when the tag says NoChange *)
  Definition Ra (c c' : cellv) : Prop :=
    shape_of c = shape_of c' /\ (tangent c = NoChange -> primal c = primal c').

  Lemma Ra_refl c : Ra c c.
  Proof. split; auto. Qed.
  Lemma Ra_to_diff c c' : Ra c c' -> Ra (to_diff c) (to_diff c').
  Proof.
    intros [S P]. destruct c, c'; simpl in *; try discriminate; split; simpl; auto.
  Qed.
  Lemma Ra_check cs cs' : Forall2 Ra cs cs' -> static_check_no_change cs = static_check_no_change cs'.
  Proof.
    unfold static_check_no_change.
    induction 1 as [|c c' cs cs' [S _] _ IH]; simpl; auto. rewrite IH.
    unfold tangent. rewrite S. reflexivity.
  Qed.
  Lemma Ra_primals cs cs' : Forall2 Ra cs cs' -> static_check_no_change cs = true -> map primal cs = map primal cs'.
  Proof.
    induction 1 as [|c c' cs cs' [_ P] _ IH]; simpl; auto. intros H. apply andb_prop in H as [H1 H2].
    f_equal; auto. apply P. destruct (tangent c); [reflexivity|discriminate].
  Qed.
  Lemma Ra_map_to_diff cs cs' : Forall2 Ra cs cs' -> Forall2 Ra (map to_diff cs) (map to_diff cs').
  Proof. induction 1; simpl; constructor; auto using Ra_to_diff. Qed.
  Lemma Ra_tagged t (outs outs' : list val) : length outs = length outs' -> (t = NoChange -> outs = outs') ->
    Forall2 Ra (map (fun v => Diff v t) outs) (map (fun v => Diff v t) outs').
  Proof.
    revert outs'; induction outs as [|o outs IH]; intros [|o' outs'] L E; simpl in *; try discriminate; constructor.
    - split; simpl; auto. intros Ht. specialize (E Ht). congruence.
    - apply IH; [lia|]. intros Ht. specialize (E Ht). congruence.
  Qed.

  Lemma incr_eqn_ni h e e' q e1 e1' :
    h_handles h (e_prim q) = false -> frel Ra (env_get e) (env_get e') ->
    incr_eqn psem h e q = Some e1 -> incr_eqn psem h e' q = Some e1' ->
    frel Ra (env_get e1) (env_get e1').
  Proof.
    intros Hh H. rewrite !incr_eqn_default by exact Hh.
    pose proof (read_many_rel Ra (fun v : val => Raw v) (fun v : val => Raw v) (fun v => Ra_refl _) e e' (e_in q) H) as Hr.
    destruct (read_many _ e (e_in q)) as [ins|], (read_many _ e' (e_in q)) as [ins'|]; simpl in *; try contradiction; try discriminate.
    apply Ra_map_to_diff in Hr. unfold default_propagation_rule.
    rewrite <- (Ra_check _ _ Hr).
    destruct (psem (e_prim q) (map primal (map to_diff ins))) as [outs|] eqn:P1; simpl; [|discriminate].
    destruct (psem (e_prim q) (map primal (map to_diff ins'))) as [outs'|] eqn:P2; simpl; [|discriminate].
    intros W1 W2.
    pose proof (write_many_length _ _ _ _ W1) as L1. pose proof (write_many_length _ _ _ _ W2) as L2.
    rewrite map_length in L1, L2.
    set (chk := static_check_no_change (map to_diff ins)) in *.
    assert (Hout : Forall2 Ra (map (fun v => Diff v (if chk then NoChange else UnknownChange)) outs)
                              (map (fun v => Diff v (if chk then NoChange else UnknownChange)) outs')).
    { apply Ra_tagged; [lia|]. destruct chk eqn:Ec; [|discriminate]. intros _.
      rewrite (Ra_primals _ _ Hr Ec) in P1. congruence. }
    pose proof (write_many_rel Ra (e_out q) e e' _ _ H Hout) as H2.
    rewrite W1, W2 in H2. exact H2.
  Qed.

  Lemma incr_eqns_ni h qs : forall e e' e1 e1',
    (forall q, In q qs -> h_handles h (e_prim q) = false) -> frel Ra (env_get e) (env_get e') ->
    incr_eqns psem h e qs = Some e1 -> incr_eqns psem h e' qs = Some e1' ->
    frel Ra (env_get e1) (env_get e1').
  Proof.
    induction qs as [|q qs IH]; intros e e' e1 e1' Hh H; simpl.
    - intros E E'; inversion E; inversion E'; subst; auto.
    - destruct (incr_eqn psem h e q) as [a|] eqn:E1; simpl; [|discriminate].
      destruct (incr_eqn psem h e' q) as [a'|] eqn:E1'; simpl; [|discriminate].
      apply IH; [intros q' Hin; apply Hh; right; exact Hin|].
      eapply incr_eqn_ni; eauto. apply Hh; left; reflexivity.
  Qed.

  (* inputs of the two runs agree wherever the tag says NoChange *)
  Inductive agree : list tag -> list val -> list val -> Prop :=
  | agree_nil : agree [] [] []
  | agree_cons t x x' ts xs xs' : (t = NoChange -> x = x') -> agree ts xs xs' -> agree (t :: ts) (x :: xs) (x' :: xs').

  Lemma agree_of_nth ts : forall xs xs',
    length xs = length ts -> length xs' = length ts ->
    (forall i, nth_error ts i = Some NoChange -> nth_error xs i = nth_error xs' i) ->
    agree ts xs xs'.
  Proof.
    induction ts as [|t ts IH]; intros [|x xs] [|x' xs'] L L' H; simpl in *; try discriminate; constructor.
    - intros Ht. subst t. specialize (H 0%nat eq_refl). simpl in H. congruence.
    - apply IH; try lia. intros i Hi. apply (H (S i)). exact Hi.
  Qed.

  Lemma tree_diff_agree ts xs xs' : agree ts xs xs' -> forall ds ds',
    tree_diff xs ts = Some ds -> tree_diff xs' ts = Some ds' -> Forall2 Ra ds ds'.
  Proof.
    induction 1 as [|t x x' ts xs xs' Hx _ IH]; simpl; intros ds ds'.
    - intros E E'; inversion E; inversion E'; constructor.
    - destruct (tree_diff xs ts) as [d|]; simpl; [|discriminate].
      destruct (tree_diff xs' ts) as [d'|]; simpl; [|discriminate].
      intros E E'; inversion E; inversion E'; subst. constructor; [|apply IH; auto].
      split; simpl; auto; destruct t; auto; discriminate.
  Qed.

  Lemma incr_ni_cells h j consts xs xs' ts outs outs' :
    null_handler h j -> agree ts xs xs' ->
    eval_incr psem h j consts xs ts = Some outs -> eval_incr psem h j consts xs' ts = Some outs' ->
    Forall2 Ra outs outs'.
  Proof.
    intros Hh Hag. unfold eval_incr.
    destruct (write_many [] (j_const j) (map _ consts)) as [e1|] eqn:W1; simpl; [|discriminate].
    assert (H1 : frel Ra (env_get e1) (env_get e1)) by (intros n; destruct (env_get e1 n); simpl; auto using Ra_refl).
    destruct (tree_diff xs ts) as [ds|] eqn:TD; simpl; [|discriminate].
    destruct (tree_diff xs' ts) as [ds'|] eqn:TD'; simpl; [|discriminate].
    pose proof (write_many_rel Ra (j_in j) e1 e1 ds ds' H1 (tree_diff_agree _ _ _ Hag _ _ TD TD')) as H2.
    destruct (write_many e1 (j_in j) ds) as [e2|], (write_many e1 (j_in j) ds') as [e2'|]; simpl in *; try contradiction; try discriminate.
    destruct (incr_eqns psem h e2 (j_eqns j)) as [e3|] eqn:E3; simpl; [|discriminate].
    destruct (incr_eqns psem h e2' (j_eqns j)) as [e3'|] eqn:E3'; simpl; [|discriminate].
    pose proof (incr_eqns_ni h (j_eqns j) e2 e2' e3 e3' Hh H2 E3 E3') as H3.
    pose proof (read_many_rel Ra (fun v : val => Raw v) (fun v : val => Raw v) (fun v => Ra_refl _) e3 e3' (j_out j) H3) as H4.
    intros R1 R2. rewrite R1, R2 in H4. exact H4.
  Qed.

  Theorem incr_noninterference h j consts xs xs' ts outs outs' :
    null_handler h j ->
    length xs = length ts -> length xs' = length ts ->
    (forall i, nth_error ts i = Some NoChange -> nth_error xs i = nth_error xs' i) ->
    eval_incr psem h j consts xs ts = Some outs ->
    eval_incr psem h j consts xs' ts = Some outs' ->
    map shape_of outs = map shape_of outs' /\
    forall k, option_map tangent (nth_error outs k) = Some NoChange ->
              option_map primal (nth_error outs k) = option_map primal (nth_error outs' k).
  Proof.
    intros Hh L L' Hn E E'.
    pose proof (incr_ni_cells h j consts xs xs' ts outs outs' Hh (agree_of_nth ts xs xs' L L' Hn) E E') as F.
    clear -F. induction F as [|c c' outs outs' [S P] _ [IH1 IH2]]; simpl.
    - split; auto.
    - split; [congruence|]. intros [|k]; simpl.
      + intros Ht. inversion Ht as [Ht']. now rewrite (P Ht').
      + apply IH2.
  Qed.
End IncrProofs.

(* ======================================================================== *)
(* C36: an InitialStylePrimitive evaluates to its wrapped function           *)
(* ======================================================================== *)
Lemma initial_style_is_wrapped fuel j consts args :
  psem_c (S fuel) (PInitial j (length consts)) (consts ++ args) = eval_ref (psem_c fuel) j consts args.
Proof.
  simpl. rewrite firstn_app, Nat.sub_diag, firstn_all, skipn_app, Nat.sub_diag, skipn_all. simpl.
  now rewrite app_nil_r.
Qed.

(* a call primitive (pjit / custom_jvp_call / remat) is its body *)
Lemma call_is_body fuel j consts args :
  psem_c (S fuel) (PCall j consts) args = eval_ref (psem_c fuel) j consts args.
Proof. reflexivity. Qed.
