(* C08 — change tags are sound.  PARTIAL in Coq:
   proved — (1) honest-or-not, the tags of the arguments do not influence an Update / Regenerate on any program
   without a switch (the only documented consumer of an UnknownChange tag is the switch index); (2) at a
   distribution site, the return value the source tags NoChange (no constraint / not selected) is the previous one;
   (3) the incremental interpreter that computes every other return tag is sound (C09: C09_incr_noninterference).
   Not proved in Coq: the composition of (2) and (3) through every combinator; it is decided on every run by the
   direct oracle (each leaf of every returned diff tagged NoChange is compared with the previous return value, and
   every edit is re-run under the other honest tagging of its unchanged arguments). *)
From Coq Require Import List ZArith.
Import ListNotations.
From Model Require Import Key Sel GFI GFIEdit.
From Proofs Require Import GFIBase GFIWf GFIEditProofs GFITags GFITagSound.

Theorem C08_argument_tags_do_not_matter_partial : forall g k t r a tg tg',
  no_switch g -> plain r -> length tg = length tg' -> edit g k t r a tg = edit g k t r a tg'.
Proof. exact tags_irrelevant. Qed.
Print Assumptions C08_argument_tags_do_not_matter_partial.

Theorem C08_site_nochange_means_unchanged_partial : forall d k t r a tg t' w b,
  wft (GDist d) t -> edit (GDist d) k t r a tg = Ok (t', w, b) -> site_retdiff_changed r = false -> t_retval t' = t_retval t.
Proof. exact site_nochange_means_unchanged. Qed.
Print Assumptions C08_site_nochange_means_unchanged_partial.

(* First clause for the static language's expressions (argument and return expressions): the tag computed for an
   expression from sound tags of its environment is sound — every part tagged NoChange has the value it had.
   (`agree t v v'`: v and v' are equal wherever t says NoChange; tuples leaf by leaf.)  The model's edit does not
   itself return a return-value diff: on every run the implementation's return diffs are checked leaf by leaf against
   the previous return value (direct oracle), and the interpreter that computes them is C09's. *)
Theorem C08_expression_tags_are_sound : forall e envt env env' v v',
  env_agree envt env env' -> eval env e = Ok v -> eval env' e = Ok v' -> agree (tag_eval envt e) v v'.
Proof. exact tag_eval_sound. Qed.
Print Assumptions C08_expression_tags_are_sound.
Theorem C08_expression_nochange_means_unchanged : forall e envt env env' v v',
  env_agree envt env env' -> eval env e = Ok v -> eval env' e = Ok v' -> tg_any (tag_eval envt e) = false -> v = v'.
Proof. exact nochange_means_unchanged. Qed.
Print Assumptions C08_expression_nochange_means_unchanged.
Example C08_expression_example :
  let e := ETup [EAdd (EVar 0) (EConst 1); EMul (EVar 1) (EVar 0)] in
  let envt := [TgLeaf false; TgLeaf true] in
  env_agree envt [VZ 3; VZ 5] [VZ 3; VZ 7] /\
  tag_eval envt e = TgNode [TgLeaf false; TgLeaf true] /\
  eval [VZ 3; VZ 5] e = Ok (VT [VZ 4; VZ 15]) /\ eval [VZ 3; VZ 7] e = Ok (VT [VZ 4; VZ 21]).
Proof.
  cbv zeta. split; [split; [reflexivity|]|repeat split; reflexivity].
  intros i v v' Hv Hv'. destruct i as [|[|i]]; simpl in Hv, Hv'.
  - inversion Hv; inversion Hv'; subst. simpl. intros _. reflexivity.
  - simpl. intros H. discriminate H.
  - destruct i; discriminate Hv.
Qed.
Print Assumptions C08_expression_example.

(* ---- non-vacuity: concrete non-trivial programs and traces meeting the hypotheses above (proofs/GFIWitness.v) ---- *)
From Proofs Require Import GFIWitness.
Example C08_hypotheses_met : no_switch ex_g /\ wft ex_g ex_t /\
  exists t' w b, edit ex_g ex_k2 ex_t (RUpdate ex_c) ex_a' ex_tg = Ok (t', w, b) /\ t' <> ex_t /\ w <> 0.
Proof. exact (conj ex_no_switch (conj ex_wft ex_update_succeeds)). Qed.
Print Assumptions C08_hypotheses_met.
