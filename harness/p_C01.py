"""C01 — engine B-gfi (harness/bgfi.py); theorems in coq/props/C01.v."""
from . import bgfi


def run(ctx):
    bgfi.run_property(ctx, "C01")


def replay(case):
    return bgfi.replay(case)
