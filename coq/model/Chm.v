(* Model of genjax/_src/core/generative/choice_map.py, classes ChoiceMap, Choice,
   Indexed, Static, Switch, Or, _ChoiceMapBuilder, _validate_addr, ChmSel,
   _shape_selection, invalid_subset; and of the parts of functional_types.py
   (Mask.build / __getitem__ / __or__ / or_n) they call.  Properties C17, C33.

   Conventions
   * leaf values are integer-valued arrays of any rank (`arr`); a leaf is a bare
     array or a Mask whose flag is a Python bool (only transiently: Choice.build
     removes those), a 0-d array or a 1-d array (`Flag.flag`).
   * every function that can raise returns `res`; the error enum is what the
     harness maps Python exceptions to.
   * functions that recurse through results of other functions take a fuel
     argument `n` and return `Err EFuel` when it runs out; no theorem depends on
     fuel being sufficient (they are stated for every fuel under `= OK _`).
   * static address components are interned as `nat` (as in gen/SelGen.v).
   No proofs in this file. *)
From Coq Require Import List Bool ZArith Arith.
Import ListNotations.
From Gen Require Import SelGen.
From Model Require Import Sel Flag.
Open Scope Z_scope.

(* ------------------------------------------------------------------ errors *)
Inductive err :=
| EIndex      (* IndexError / TypeError from indexing a 0-d array, a float or an int *)
| EOrChoice   (* "Choice and non-Choice in Or" *)
| EOrSwitch   (* "We can't currently handle two switches in an Or" *)
| EAddr       (* ValueError of _validate_addr *)
| EAssert     (* AssertionError (Mask.build flag shapes, Indexed.get_inner_map) *)
| EShape      (* ValueError of Mask._validate_init / _validate_mask_shapes *)
| EList       (* IndexError "list index out of range" (Switch.build with a Python int, chms[0]) *)
| EUnsup      (* outside the modelled fragment *)
| EFuel.
Inductive res (A : Type) := OK (a : A) | Err (e : err).
Arguments OK {A} a.
Arguments Err {A} e.
Definition bind {A B} (x : res A) (f : A -> res B) : res B :=
  match x with OK a => f a | Err e => Err e end.
Notation "'do' x <- a ; b" := (bind a (fun x => b)) (at level 200, x pattern, a at level 100, b at level 200).
Definition mapM {A B} (f : A -> res B) : list A -> res (list B) :=
  fix go l := match l with
              | [] => OK []
              | a :: r => do b <- f a; do r' <- go r; OK (b :: r')
              end.

(* ------------------------------------------------------------------ arrays *)
Inductive arr := A0 (z : Z) | AN (l : list arr).

(* jnp indexing with a scalar index: a negative index is shifted once by the
   axis length, then the result is clamped into range (probed: a[5] = a[-1],
   a[-5] = a[0] for a length-3 axis, for int and 0-d array indices alike) *)
Definition norm_index (n : nat) (i : Z) : nat :=
  let i' := if i <? 0 then i + Z.of_nat n else i in
  Z.to_nat (Z.max 0 (Z.min i' (Z.of_nat n - 1))).
Definition nget {A} (l : list A) (i : Z) : option A :=
  match l with [] => None | _ => nth_error l (norm_index (length l) i) end.
Definition aget (a : arr) (i : Z) : res arr :=
  match a with
  | A0 _ => Err EIndex
  | AN l => match nget l i with Some x => OK x | None => Err EIndex end
  end.

(* ------------------------------------------------------------------ leaves *)
Inductive leaf := LRaw (a : arr) | LMask (a : arr) (f : flag).

Definition flag_scalar (f : flag) : bool := match f with FS _ _ => true | FV _ => false end.
Definition flag_len (f : flag) : option nat := match f with FS _ _ => None | FV l => Some (length l) end.
Definition opt_nat_eqb (a b : option nat) : bool :=
  match a, b with None, None => true | Some x, Some y => Nat.eqb x y | _, _ => false end.

(* Mask.__init__/_validate_init: a vector flag's shape is a prefix of the value's shape *)
Definition valid_init (a : arr) (f : flag) : bool :=
  match f with
  | FS _ _ => true
  | FV l => match a with AN rows => Nat.eqb (length rows) (length l) | A0 _ => false end
  end.
Definition mk_mask (a : arr) (f : flag) : res leaf :=
  if valid_init a f then OK (LMask a f) else Err EShape.

(* Mask.build(v, f) *)
Definition mask_build (v : leaf) (f : flag) : res leaf :=
  match v with
  | LRaw a => mk_mask a f
  | LMask a g =>
      if flag_scalar f || opt_nat_eqb (flag_len f) (flag_len g)
      then match and_ f g with Some h => mk_mask a h | None => Err EShape end
      else Err EAssert
  end.

(* Mask.__getitem__(i), and v[i] on a bare array *)
Definition leaf_index (v : leaf) (i : Z) : res leaf :=
  match v with
  | LRaw a => do x <- aget a i; OK (LRaw x)
  | LMask a (FV l) =>
      do x <- aget a i;
      match nget l i with Some b => mk_mask x (FS Ar b) | None => Err EIndex end
  | LMask a f => do x <- aget a i; mk_mask x f
  end.

(* shapes, for Mask._validate_mask_shapes *)
Fixpoint arr_shape_eqb (a b : arr) : bool :=
  match a, b with
  | A0 _, A0 _ => true
  | AN l, AN m =>
      (fix go l m := match l, m with
                     | [], [] => true
                     | x :: r, y :: s => arr_shape_eqb x y && go r s
                     | _, _ => false
                     end) l m
  | _, _ => false
  end.
Definition is_rank1 (a : arr) : bool :=
  match a with AN l => forallb (fun x => match x with A0 _ => true | _ => false end) l | A0 _ => false end.

(* Mask.__or__ on (value, flag) pairs.  With array flags the result is
   tree_choose(first + 2*(~first & second) - 1, [self, other]): elementwise the
   first where its flag holds, else the second; the flag is the disjunction.
   Vector flags over values of rank >= 2 are outside the model (jnp.choose
   broadcasts the index against the trailing axis there). *)
Definition mor (x y : arr * flag) : res (arr * flag) :=
  let '(a, f) := x in let '(b, g) := y in
  if negb (arr_shape_eqb a b && opt_nat_eqb (flag_len f) (flag_len g)) then Err EShape else
  match f, g with
  | FS Py true, _ => OK x
  | FS Py false, _ => OK y
  | FS _ p, FS _ q => OK (if p then a else b, FS Ar (p || q))
  | FV l, FV m =>
      match a, b with
      | AN ra, AN rb =>
          if is_rank1 a
          then OK (AN (map (fun t : (bool * bool) * (arr * arr) => if fst (fst t) then fst (snd t) else snd (snd t))
                           (combine (combine l m) (combine ra rb))),
                   FV (map (fun t : bool * bool => fst t || snd t) (combine l m)))
          else Err EUnsup
      | _, _ => Err EShape
      end
  | _, _ => Err EShape
  end.
(* Mask.build(v) with the default flag True, as a pair *)
Definition mask_of (v : leaf) : arr * flag :=
  match v with
  | LRaw a => (a, FS Py true)
  | LMask a (FS _ b) => (a, FS Ar b)       (* FlagOp.and_(True, g) = jnp.logical_and *)
  | LMask a g => (a, g)
  end.
Definition leaf_of_mask (m : arr * flag) : leaf := LMask (fst m) (snd m).

(* ------------------------------------------------------------------ choice maps *)
(* Indexed.addr: a Python int, a 0-d array, a 1-d array, or (IBad) a Mask object:
   what jtu.tree_map leaves behind when Indexed.get_inner_map maps an inner
   Indexed's array-shaped address *)
Inductive iaddr := IPy (z : Z) | IAr (z : Z) | IVec (l : list Z) | IBad.
Inductive sidx := SArr (z : Z) | SBad.

Inductive chm :=
| Static (m : list (nat * chm))     (* mapping; nested Static values are stored as Static (unwrap/rewrap elided) *)
| Choice (v : leaf)
| Indexed (c : chm) (a : iaddr)
| Switch (i : sidx) (cs : list chm)
| Or (c1 c2 : chm).

Definition empty : chm := Static [].
Definition static_is_empty (c : chm) : bool := match c with Static [] => true | _ => false end.

Fixpoint assoc (n : nat) (m : list (nat * chm)) : option chm :=
  match m with [] => None | (k, v) :: r => if Nat.eqb k n then Some v else assoc n r end.

(* Choice.build *)
Definition choice_build (v : leaf) : chm :=
  match v with
  | LRaw (AN []) => empty                   (* Array of shape (0,) *)
  | LRaw a => Choice (LRaw a)
  | LMask a (FS Py false) => empty
  | LMask a (FS Py true) => Choice (LRaw a)
  | LMask a f => Choice (LMask a f)
  end.
(* Static.build: drop (statically) empty sub-maps *)
Definition static_build (m : list (nat * chm)) : chm :=
  Static (filter (fun kv => negb (static_is_empty (snd kv))) m).
(* Indexed.build (slices are not modelled) *)
Definition indexed_build (c : chm) (a : iaddr) : chm :=
  if static_is_empty c then c
  else match a with IVec [] => empty | _ => Indexed c a end.

(* address components: builder side (any Indexed address) and lookup side (scalars) *)
Inductive bcomp := BS (n : nat) | BI (a : iaddr).
Inductive lidx := LPy (z : Z) | LAr (z : Z).
Inductive comp := CS (n : nat) | CI (i : lidx).
Definition lidx_z (i : lidx) : Z := match i with LPy z | LAr z => z end.

(* ChoiceMap.extend *)
Definition extend1 (acc : chm) (b : bcomp) : chm :=
  match b with BS n => static_build [(n, acc)] | BI a => indexed_build acc a end.
Definition c_extend (c : chm) (q : list bcomp) : chm := fold_right (fun b acc => extend1 acc b) c q.

(* _validate_addr on the modelled component kinds: the dynamic components are a
   prefix of scalars, then at most one array-shaped component, then nothing *)
Fixpoint drop_scalars (q : list iaddr) : list iaddr :=
  match q with (IPy _ | IAr _) :: r => drop_scalars r | _ => q end.
Definition dyn_comps (q : list bcomp) : list iaddr :=
  flat_map (fun b => match b with BI a => [a] | BS _ => [] end) q.
Definition validate_addr (q : list bcomp) : bool :=
  match drop_scalars (dyn_comps q) with
  | [] => true
  | IVec _ :: [] => true
  | _ => false
  end.

(* self.addr == addr *)
Definition addr_eq_flag (a : iaddr) (i : lidx) : flag :=
  match a, i with
  | IPy k, LPy z => FS Py (Z.eqb k z)
  | IPy k, LAr z | IAr k, LPy z | IAr k, LAr z => FS Ar (Z.eqb k z)
  | IVec l, _ => FV (map (fun k => Z.eqb k (lidx_z i)) l)
  | IBad, _ => FS Py false                (* Mask == x is False *)
  end.

Fixpoint find_index (l : list Z) (z : Z) (k : nat) : option nat :=
  match l with [] => None | x :: r => if Z.eqb x z then Some k else find_index r z (S k) end.

(* Mask.build(v) with the default flag True is mask_of; Choice.build of a Mask.__or__ result *)

(* ---- the mutually recursive core: ChoiceMap.mask (filter by a flag) and Or.build ---- *)
(* Choice.filter(flag) *)
Definition choice_filter_flag (v : leaf) (f : flag) : res chm :=
  do m <- mask_build v f; OK (choice_build m).
Definition branch_flag (i : sidx) (k : nat) : flag :=
  match i with SArr z => FS Ar (Z.eqb (Z.of_nat k) z) | SBad => FS Py false end.   (* _idx == idx; int == Mask is False *)
Definition enum {A} (l : list A) : list (nat * A) := combine (seq 0 (length l)) l.

Fixpoint filter_flag (n : nat) (f : flag) (c : chm) {struct n} : res chm :=
  match n with O => Err EFuel | S n' =>
  match c with
  | Choice v => choice_filter_flag v f
  | Static m =>                                          (* Static.filter *)
      do m' <- mapM (fun kv => do x <- filter_flag n' f (snd kv); OK (fst kv, x)) m;
      OK (static_build m')
  | Indexed c a => do x <- filter_flag n' f c; OK (indexed_build x a)     (* Indexed.filter: .extend(self.addr) *)
  | Switch i cs =>                                       (* Switch.filter: Switch.build(self.idx, [...]) *)
      do cs' <- mapM (filter_flag n' f) cs;
      do cs'' <- mapM (fun kc => filter_flag n' (branch_flag i (fst kc)) (snd kc)) (enum cs');
      OK (Switch i cs'')
  | Or a b => do x <- filter_flag n' f a; do y <- filter_flag n' f b; or_build n' x y
  end end
(* Or.build *)
with or_build (n : nat) (c1 c2 : chm) {struct n} : res chm :=
  match n with O => Err EFuel | S n' =>
  if static_is_empty c2 then OK c1 else
  if static_is_empty c1 then OK c2 else
  match c1, c2 with
  | Static m1, Static m2 =>                              (* Static.merge_with(or_, c1, c2) *)
      do l1 <- mapM (fun kv => match assoc (fst kv) m2 with
                               | Some b => do x <- or_build n' (snd kv) b; OK (fst kv, x)
                               | None => OK kv
                               end) m1;
      OK (static_build (l1 ++ filter (fun kv => match assoc (fst kv) m1 with Some _ => false | None => true end) m2))
  | Choice a, Choice b =>
      do m <- mor (mask_of a) (mask_of b); OK (choice_build (leaf_of_mask m))
  | Switch _ _, Switch _ _ => Err EOrSwitch
  | Switch i cs, _ =>
      do xs <- mapM (fun c => or_build n' c c2) cs;
      do ys <- mapM (fun kc => filter_flag n' (branch_flag i (fst kc)) (snd kc)) (enum xs);
      OK (Switch i ys)
  | _, Switch i cs =>
      do xs <- mapM (fun c => or_build n' c1 c) cs;
      do ys <- mapM (fun kc => filter_flag n' (branch_flag i (fst kc)) (snd kc)) (enum xs);
      OK (Switch i ys)
  | Choice _, _ | _, Choice _ => Err EOrChoice
  | _, _ => OK (Or c1 c2)
  end end.

(* Switch.build with a traced / array index: every branch masked by (_idx == idx) *)
Definition switch_mask (n : nat) (i : sidx) (cs : list chm) : res chm :=
  do ys <- mapM (fun kc => filter_flag n (branch_flag i (fst kc)) (snd kc)) (enum cs);
  OK (Switch i ys).
(* ChoiceMap.switch as the user calls it: a Python int indexes the list *)
Inductive ispec := XPy (z : Z) | XArr (z : Z).
Definition switch_build (n : nat) (i : ispec) (cs : list chm) : res chm :=
  match i with
  | XPy z =>
      let len := Z.of_nat (length cs) in
      if (z <? - len) || (len <=? z) then Err EList
      else match nth_error cs (Z.to_nat (if z <? 0 then z + len else z)) with Some c => OK c | None => Err EList end
  | XArr z => switch_mask n (SArr z) cs
  end.

(* ---- filter by a selection ---- *)
Fixpoint filter_sel (n : nat) (s : sel) (c : chm) {struct n} : res chm :=
  match n with O => Err EFuel | S n' =>
  match c with
  | Choice v => OK (if check s then c else empty)                       (* Choice.filter *)
  | Static m =>
      do m' <- mapM (fun kv => do x <- filter_sel n' (get_subselection s (fst kv)) (snd kv); OK (fst kv, x)) m;
      OK (static_build m')
  | Indexed c a => do x <- filter_sel n' s c; OK (indexed_build x a)
  | Switch i cs => do cs' <- mapM (filter_sel n' s) cs; switch_mask n' i cs'
  | Or a b => do x <- filter_sel n' s a; do y <- filter_sel n' s b; or_build n' x y
  end end.

(* ---- get_inner_map ---- *)
(* jtu.tree_map(lambda v: v[addr], self, is_leaf=Mask): every pytree leaf, the
   addresses of inner Indexed nodes and the index of inner Switch nodes included *)
Fixpoint index_all (n : nat) (c : chm) (i : Z) {struct n} : res chm :=
  match n with O => Err EFuel | S n' =>
  match c with
  | Choice v => do x <- leaf_index v i; OK (Choice x)
  | Static m => do m' <- mapM (fun kv => do x <- index_all n' (snd kv) i; OK (fst kv, x)) m; OK (Static m')
  | Indexed c a =>
      do c' <- index_all n' c i;
      match a with
      | IVec l => match nget l i with Some z => OK (Indexed c' (IAr z)) | None => Err EIndex end
      | _ => Err EIndex                     (* int / 0-d array / Mask-of-0-d is not indexable *)
      end
  | Switch _ _ => Err EIndex               (* the 0-d index is a leaf too *)
  | Or a b => do x <- index_all n' a i; do y <- index_all n' b i; OK (Or x y)
  end end.

(* Indexed.get_inner_map against an array-shaped self.addr:
   jtu.tree_map(lambda v: Mask.build(v[idx], check[idx]), self.c, is_leaf=Mask) *)
Fixpoint row_mask (n : nat) (c : chm) (r : Z) (b : bool) {struct n} : res chm :=
  match n with O => Err EFuel | S n' =>
  match c with
  | Choice v => do x <- leaf_index v r; do m <- mask_build x (FS Ar b); OK (Choice m)
  | Static m => do m' <- mapM (fun kv => do x <- row_mask n' (snd kv) r b; OK (fst kv, x)) m; OK (Static m')
  | Indexed c a =>
      do c' <- row_mask n' c r b;
      match a with
      | IVec _ => OK (Indexed c' IBad)     (* the inner address becomes a Mask object *)
      | _ => Err EIndex
      end
  | Switch _ _ => Err EIndex
  | Or c1 c2 => do x <- row_mask n' c1 r b; do y <- row_mask n' c2 r b; OK (Or x y)
  end end.

Fixpoint gim (n : nat) (c : chm) (k : comp) {struct n} : res chm :=
  match n with O => Err EFuel | S n' =>
  match c, k with
  | Choice _, CS _ => OK empty
  | Choice v, CI i => do x <- leaf_index v (lidx_z i); OK (Choice x)
  | Indexed _ _, CS _ => OK empty
  | Indexed c (IVec l), CI i =>
      match find_index l (lidx_z i) 0 with
      | Some r => row_mask n c (Z.of_nat r) true
      | None => row_mask n c 0 false           (* argwhere fill: slot 0, flag False *)
      end
  | Indexed c a, CI i => filter_flag n (addr_eq_flag a i) c          (* self.c.mask(self.addr == addr) *)
  | Static m, CS k => OK (match assoc k m with Some v => v | None => empty end)
  | Static _, CI i => index_all n c (lidx_z i)
  | Switch i cs, _ => do cs' <- mapM (fun c => gim n' c k) cs; OK (Switch i cs')
  | Or a b, _ => do x <- gim n' a k; do y <- gim n' b k; or_build n x y
  end end.

(* ChoiceMap.get_submap / __call__ (scalar lookup components always pass _validate_addr) *)
Fixpoint get_submap (n : nat) (c : chm) (p : list comp) : res chm :=
  match p with [] => OK c | k :: r => do c' <- gim n c k; get_submap n c' r end.

(* get_value: Switch uses Mask.or_n over the branches that have a value *)
Fixpoint get_value (n : nat) (c : chm) {struct n} : res (option leaf) :=
  match n with O => Err EFuel | S n' =>
  match c with
  | Choice v => OK (Some v)
  | Switch _ cs =>
      do vs <- mapM (get_value n') cs;
      match flat_map (fun o => match o with Some v => [mask_of v] | None => [] end) vs with
      | [] => OK None
      | e :: r => do m <- fold_left (fun acc x => do a <- acc; mor a x) r (OK e); OK (Some (leaf_of_mask m))
      end
  | _ => OK None
  end end.

(* ChmSel (get_selection): build / check / get_subselection, as a membership test *)
Fixpoint chmsel_mem (n : nat) (c : chm) (q : list nat) : res bool :=
  if static_is_empty c then OK false else
  match q with
  | [] => do v <- get_value n c; OK (match v with Some _ => true | None => false end)
  | a :: r => do c' <- gim n c (CS a); chmsel_mem n c' r
  end.

(* _shape_selection *)
Fixpoint shape_selection (n : nat) (c : chm) {struct n} : res sel :=
  match n with O => Err EFuel | S n' =>
  match c with
  | Static m =>
      fold_left (fun acc kv => do a <- acc; do s <- shape_selection n' (snd kv);
                               OK (OrSel_build a (Sel.extend s [CName (fst kv)]))) m (OK NoneSel)
  | Indexed c _ => do s <- shape_selection n' c; OK (Sel.extend s [CEllipsis])
  | Choice _ => OK LeafSel
  | Or a b => do x <- shape_selection n' a; do y <- shape_selection n' b; OK (OrSel_build x y)
  | Switch _ [] => Err EList
  | Switch _ (h :: t) =>
      fold_left (fun acc c => do a <- acc; do s <- shape_selection n' c; OK (OrSel_build a s)) t (shape_selection n' h)
  end end.

(* ChoiceMap.invalid_subset, given the choice map of the model's zero trace *)
Definition invalid_subset (n : nat) (shape c : chm) : res (option chm) :=
  do s <- shape_selection n shape;
  do extras <- filter_sel n (ComplementSel_build s) c;
  OK (if static_is_empty extras then None else Some extras).

(* ---- jax.vmap of a construction: rows are built separately, leaves stacked ---- *)
Definition all_same_nat (l : list nat) : bool := match l with [] => true | x :: r => forallb (Nat.eqb x) r end.
Fixpoint transpose_rows (k : nat) (rows : list (list chm)) : list (list chm) :=
  match k with O => [] | S k' => map (fun r => match r with x :: _ => x | [] => empty end) rows
                                 :: transpose_rows k' (map (@tl chm) rows) end.
Fixpoint vstack (n : nat) (rows : list chm) {struct n} : res chm :=
  match n with O => Err EFuel | S n' =>
  match rows with
  | [] => Err EUnsup
  | Static m0 :: _ =>
      let keys := map fst m0 in
      if forallb (fun r => match r with Static m => list_eqb Nat.eqb (map fst m) keys | _ => false end) rows then
        do cols <- mapM (fun k => vstack n' (map (fun r => match r with Static m => match assoc k m with Some v => v | None => empty end | _ => empty end) rows)) keys;
        OK (Static (combine keys cols))
      else Err EUnsup
  | Choice (LRaw _) :: _ =>
      do xs <- mapM (fun r => match r with Choice (LRaw a) => OK a | _ => Err EUnsup end) rows;
      OK (Choice (LRaw (AN xs)))
  | Choice (LMask _ _) :: _ =>
      do xs <- mapM (fun r => match r with Choice (LMask a (FS Ar b)) => OK (a, b) | _ => Err EUnsup end) rows;
      OK (Choice (LMask (AN (map fst xs)) (FV (map snd xs))))
  | Indexed _ _ :: _ =>
      do cs <- mapM (fun r => match r with Indexed c _ => OK c | _ => Err EUnsup end) rows;
      do zs <- mapM (fun r => match r with Indexed _ (IPy z) | Indexed _ (IAr z) => OK z | _ => Err EUnsup end) rows;
      do c <- vstack n' cs; OK (Indexed c (IVec zs))
  | Or _ _ :: _ =>
      do ab <- mapM (fun r => match r with Or a b => OK (a, b) | _ => Err EUnsup end) rows;
      do a <- vstack n' (map fst ab); do b <- vstack n' (map snd ab); OK (Or a b)
  | Switch _ _ :: _ => Err EUnsup
  end end.

(* ---- construction expressions, as the harness generates them ---- *)
Inductive aspec := AConst (a : arr) | AHole.            (* AHole: the vmapped value *)
Inductive fspec := FConst (f : flag) | FHole.           (* FHole: the vmapped flag (a tracer) *)
Inductive lspec := LS (a : aspec) (f : option fspec).   (* v   or   Mask(v, f) *)
Inductive xcomp := XS (n : nat) | XI (a : iaddr) | XHole.   (* XHole: the vmapped index *)

Inductive expr :=
| EEmpty
| EChoice (l : lspec)                                   (* ChoiceMap.choice(v) *)
| EEntry (v : expr) (q : list xcomp)                    (* ChoiceMap.entry(v, *q)   (no address validation) *)
| ESetC (q : list xcomp) (v : expr)                     (* C[q].set(v) *)
| ED (pairs : list (list xcomp * expr))                 (* ChoiceMap.d / kw / from_mapping *)
| ESet (base : expr) (q : list xcomp) (v : expr)        (* base.at[q].set(v) *)
| EUpdId (base : expr) (q : list xcomp)                 (* base.at[q].update(lambda x: x) *)
| EUpdConst (base : expr) (q : list xcomp) (l : lspec)  (* base.at[q].update(lambda _: v) *)
| EOr (a b : expr)
| EMask (f : fspec) (a : expr)
| EFilter (s : sterm) (a : expr)
| EExtend (a : expr) (q : list xcomp)
| ESwitch (i : ispec) (es : list expr)
| ESub (a : expr) (p : list comp)                       (* a(p) *)
| EVmap (idx : list Z) (vals : list arr) (flags : list bool) (body : expr).

Record row := { r_idx : Z; r_val : arr; r_flag : bool }.
Definition xcomp_b (r : option row) (x : xcomp) : res bcomp :=
  match x with
  | XS n => OK (BS n)
  | XI a => OK (BI a)
  | XHole => match r with Some r => OK (BI (IAr (r_idx r))) | None => Err EUnsup end
  end.
Definition fspec_f (r : option row) (f : fspec) : res flag :=
  match f with
  | FConst f => OK f
  | FHole => match r with Some r => OK (FS Ar (r_flag r)) | None => Err EUnsup end
  end.
Definition lspec_leaf (r : option row) (l : lspec) : res leaf :=
  let '(LS a f) := l in
  do a' <- match a with AConst a => OK a | AHole => match r with Some r => OK (r_val r) | None => Err EUnsup end end;
  match f with
  | None => OK (LRaw a')
  | Some f => do f' <- fspec_f r f; mk_mask a' f'          (* Mask(v, f) may itself raise *)
  end.

(* _ChoiceMapBuilder.set *)
Definition builder_set (n : nat) (base : chm) (q : list bcomp) (v : chm) : res chm :=
  if validate_addr q then or_build n (c_extend v q) base else Err EAddr.

Fixpoint eval (n : nat) (r : option row) (e : expr) {struct n} : res chm :=
  match n with O => Err EFuel | S n' =>
  match e with
  | EEmpty => OK empty
  | EChoice l => do v <- lspec_leaf r l; OK (choice_build v)
  | EEntry v q => do c <- eval n' r v; do q' <- mapM (xcomp_b r) q; OK (c_extend c q')
  | ESetC q v => do q' <- mapM (xcomp_b r) q; if validate_addr q' then do c <- eval n' r v; builder_set n empty q' c else Err EAddr
  | ED pairs =>
      fold_left (fun acc qv => do a <- acc; do c <- eval n' r (snd qv); do q' <- mapM (xcomp_b r) (fst qv);
                               or_build n a (c_extend c q')) pairs (OK empty)
  | ESet base q v =>
      do b <- eval n' r base; do q' <- mapM (xcomp_b r) q;
      if validate_addr q' then do c <- eval n' r v; builder_set n b q' c else Err EAddr
  | EUpdId base q =>
      do b <- eval n' r base; do q' <- mapM (xcomp_b r) q;
      (* submap = self.choice_map(tuple(self.addrs)); has_value -> set(get_value) else set(submap) *)
      do p <- mapM (fun c => match c with BS k => OK (CS k) | BI (IPy z) => OK (CI (LPy z)) | BI (IAr z) => OK (CI (LAr z)) | _ => Err EUnsup end) q';
      do sub <- get_submap n b p;
      do v <- get_value n sub;
      builder_set n b q' (match v with Some l => choice_build l | None => sub end)
  | EUpdConst base q l =>
      do b <- eval n' r base; do q' <- mapM (xcomp_b r) q;
      do p <- mapM (fun c => match c with BS k => OK (CS k) | BI (IPy z) => OK (CI (LPy z)) | BI (IAr z) => OK (CI (LAr z)) | _ => Err EUnsup end) q';
      do sub <- get_submap n b p;
      do _v <- get_value n sub;
      do v <- lspec_leaf r l;
      builder_set n b q' (choice_build v)
  | EOr a b => do x <- eval n' r a; do y <- eval n' r b; or_build n x y
  | EMask f a => do x <- eval n' r a; do f' <- fspec_f r f; filter_flag n f' x
  | EFilter s a => do x <- eval n' r a; filter_sel n (Sel.build s) x
  | EExtend a q => do x <- eval n' r a; do q' <- mapM (xcomp_b r) q; OK (c_extend x q')
  | ESwitch i es => do cs <- mapM (eval n' r) es; switch_build n i cs
  | ESub a p => do x <- eval n' r a; get_submap n x p
  | EVmap idx vals flags body =>
      match r with Some _ => Err EUnsup | None =>
      let rows := map (fun t => {| r_idx := fst (fst t); r_val := snd (fst t); r_flag := snd t |}) (combine (combine idx vals) flags) in
      do cs <- mapM (fun rw => eval n' (Some rw) body) rows;
      vstack n cs
      end
  end end.

(* ------------------------------------------------------------------ observation *)
(* what a query returns, canonically: is it a Mask object; per element (value, valid),
   values under a false flag erased to 0 *)
Inductive oarr := O0 (z : Z) (ok : bool) | ON (l : list oarr).
Fixpoint oarr_of (a : arr) (ok : bool) : oarr :=
  match a with A0 z => O0 (if ok then z else 0) ok | AN l => ON (map (fun x => oarr_of x ok) l) end.
Definition obs_leaf (v : leaf) : bool * oarr :=
  match v with
  | LRaw a => (false, oarr_of a true)
  | LMask a (FS _ b) => (true, oarr_of a b)
  | LMask (AN rows) (FV l) => (true, ON (map (fun t => oarr_of (fst t) (snd t)) (combine rows l)))
  | LMask (A0 z) (FV _) => (true, O0 0 false)
  end.
Fixpoint oarr_eqb (a b : oarr) : bool :=
  match a, b with
  | O0 z p, O0 w q => Z.eqb z w && Bool.eqb p q
  | ON l, ON m =>
      (fix go l m := match l, m with
                     | [], [] => true
                     | x :: r, y :: s => oarr_eqb x y && go r s
                     | _, _ => false
                     end) l m
  | _, _ => false
  end.

(* ------------------------------------------------------------------ correspondence cases *)
Inductive query :=
| QLook (p : list comp)            (* sub = chm(p): sub.static_is_empty(), p in chm, chm[p] *)
| QSel (q : list nat).             (* chm.get_selection()[q] *)
Inductive ans :=
| AErr (e : err)
| ALook (is_empty : bool) (v : option (bool * oarr))
| ASel (b : bool).
Inductive ccase :=
| CExpr (e : expr) (built : option err) (qs : list (query * ans))
| CInvalid (shape : chm) (e : expr) (want : option (option (list (query * ans))))   (* None: raised *)
| CShapeSel (c : chm) (qs : list (list nat * bool)).                                (* _shape_selection(c)[q] *)

(* exceptions of one construction step may surface in hash order (Static.merge_with
   iterates a set of keys); the four "cannot combine / ill-shaped mask" kinds are
   compared as one class *)
Definition err_class (e : err) : nat :=
  match e with
  | EIndex => 0 | EOrChoice | EOrSwitch | EShape | EAssert => 1 | EAddr => 2
  | EList => 4 | EUnsup => 5 | EFuel => 6
  end%nat.
Definition err_eqb (a b : err) : bool := Nat.eqb (err_class a) (err_class b).

Definition FUEL : nat := 40%nat.

Definition run_query (c : chm) (q : query) : ans :=
  match q with
  | QLook p =>
      match get_submap FUEL c p with
      | Err e => AErr e
      | OK sub => match get_value FUEL sub with
                  | Err e => AErr e
                  | OK v => ALook (static_is_empty sub) (option_map obs_leaf v)
                  end
      end
  | QSel q => match chmsel_mem FUEL c q with Err e => AErr e | OK b => ASel b end
  end.
Definition ans_eqb (a b : ans) : bool :=
  match a, b with
  | AErr e, AErr f => err_eqb e f
  | ALook x v, ALook y w =>
      Bool.eqb x y && match v, w with
                      | None, None => true
                      | Some (m, o), Some (m', o') => Bool.eqb m m' && oarr_eqb o o'
                      | _, _ => false
                      end
  | ASel x, ASel y => Bool.eqb x y
  | _, _ => false
  end.
Definition queries_ok (c : chm) (qs : list (query * ans)) : bool :=
  forallb (fun qa => ans_eqb (run_query c (fst qa)) (snd qa)) qs.

Definition ccase_ok (c : ccase) : bool :=
  match c with
  | CExpr e built qs =>
      match eval FUEL None e, built with
      | Err e1, Some e2 => err_eqb e1 e2
      | OK c, None => queries_ok c qs
      | _, _ => false
      end
  | CInvalid shape e want =>
      match eval FUEL None e with
      | Err _ => false
      | OK c =>
          match invalid_subset FUEL shape c, want with
          | Err _, None => true
          | OK None, Some None => true
          | OK (Some x), Some (Some qs) => queries_ok x qs
          | _, _ => false
          end
      end
  | CShapeSel c qs =>
      match shape_selection FUEL c with
      | Err _ => false
      | OK s => forallb (fun qb => Bool.eqb (Sel.mem s (fst qb)) (snd qb)) qs
      end
  end.
Fixpoint cmismatches_from (n : nat) (cs : list ccase) : list nat :=
  match cs with
  | [] => []
  | c :: r => if ccase_ok c then cmismatches_from (S n) r else n :: cmismatches_from (S n) r
  end.
Definition cmismatches := cmismatches_from 0.
