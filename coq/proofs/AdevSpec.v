(* AdevSpec.v — (a) the polynomial specP IS the expectation valueQ as a function of the
   step theta; (b) the estimator's primal is the program's value for the sampled randomness;
   (c) the tangent is linear in the input tangents (grad_estimate agrees with jvp_estimate). *)
From Coq Require Import List ZArith QArith Qabs Bool Lia Setoid Morphisms.
Import ListNotations.
From Model Require Import Adev.
From Proofs Require Import AdevPoly AdevGrid AdevProofs AdevMaster.
Open Scope Q_scope.

Section S.
Variables lg dlg : Q -> Q.
Notation deval := (deval lg dlg).
Notation interpT := (interpT lg dlg).
Notation qeval := (qeval lg).
Notation valueQ := (valueQ lg).

(* ---------------------------------------------------------------------------- *)
(* (a) peval (specP ...) theta == valueQ true ... at the parameters moved by theta  *)
(* ---------------------------------------------------------------------------- *)
Definition RelE (t : Q) (envP : list poly) (envQ : list Q) : Prop := Forall2 (fun P q => peval P t == q) envP envQ.

Lemma RelE_nth t envP envQ : RelE t envP envQ -> forall i, peval (nth i envP []) t == nth i envQ 0.
Proof. induction 1; intros [|i]; simpl; try assumption; try reflexivity. apply IHForall2. Qed.

Lemma ppeval_qeval t e : arith e = true -> forall envP envQ benv, RelE t envP envQ ->
  peval (ppeval e envP benv) t == qeval e envQ benv.
Proof.
  induction e; simpl; intros Ha envP envQ benv HR; try discriminate.
  - ring.
  - apply RelE_nth. assumption.
  - apply andb_true_iff in Ha. destruct Ha. rewrite peval_padd, IHe1, IHe2 by eassumption. reflexivity.
  - apply andb_true_iff in Ha. destruct Ha. rewrite peval_psub, IHe1, IHe2 by eassumption. reflexivity.
  - apply andb_true_iff in Ha. destruct Ha. rewrite peval_pmul, IHe1, IHe2 by eassumption. reflexivity.
  - rewrite peval_pneg, IHe by eassumption. reflexivity.
  - apply andb_true_iff in Ha. destruct Ha. destruct (nth c benv false); [apply IHe1|apply IHe2]; assumption.
Qed.

Lemma ppeval_qeval_args t args : forallb arith args = true -> forall envP envQ benv, RelE t envP envQ ->
  Forall2 (fun P q => peval P t == q) (map (fun e => ppeval e envP benv) args) (map (fun e => qeval e envQ benv) args).
Proof.
  induction args; simpl; intros Ha envP envQ benv HR. { constructor. }
  apply andb_true_iff in Ha. destruct Ha. constructor. { apply ppeval_qeval; assumption. } apply IHargs; assumption.
Qed.

Definition pqrel (t : Q) (vP : pbval) (vQ : qbval) : Prop :=
  match vP, vQ with
  | PB b, QB b' => b = b'
  | PR P, QR q => peval P t == q
  | _, _ => False
  end.

Lemma psite_vsite t pr : forall argsP argsQ rs d KP KQ,
  prim_exact pr = true -> prim_ok pr (length argsP) = true ->
  Forall2 (fun P q => peval P t == q) argsP argsQ ->
  (forall vP vQ d', pqrel t vP vQ -> peval (KP vP d') t == KQ vQ d') ->
  peval (psite pr argsP rs d KP) t == vsite true pr argsQ rs d KQ.
Proof.
  induction pr; intros argsP argsQ rs d KP KQ He Hok Hargs HK; simpl in He, Hok; try discriminate.
  - destruct argsP as [|p [|? ?]]; try discriminate.
    inversion Hargs as [|? ? q ? Hp Hrest]; subst. inversion Hrest; subst. simpl.
    rewrite peval_padd, !peval_pmul, peval_psub, peval_pconst, Hp.
    rewrite (HK (PB true) (QB true) d), (HK (PB false) (QB false) d) by reflexivity. reflexivity.
  - destruct argsP as [|p [|? ?]]; try discriminate.
    inversion Hargs as [|? ? q ? Hp Hrest]; subst. inversion Hrest; subst. simpl.
    rewrite peval_padd, !peval_pmul, peval_psub, peval_pconst, Hp.
    rewrite (HK (PB true) (QB true) (S d)), (HK (PB false) (QB false) (S d)) by reflexivity. reflexivity.
  - destruct argsP as [|m [|s [|? ?]]]; try discriminate.
    inversion Hargs as [|? ? mq ? Hm Hrest]; subst. inversion Hrest as [|? ? sq ? Hs Hrest']; subst. inversion Hrest'; subst.
    simpl. apply HK. simpl. rewrite peval_padd, peval_pscale, Hm, Hs. ring.
  - destruct argsP as [|b argsP]; try discriminate.
    inversion Hargs as [|? ? bq argsQ' Hb Hrest]; subst. simpl. apply IHpr; assumption.
Qed.

Lemma pzipmv_rel t locs : forall locsQ scs scsQ eps,
  Forall2 (fun P q => peval P t == q) locs locsQ -> Forall2 (fun P q => peval P t == q) scs scsQ ->
  Forall2 (fun P q => peval P t == q) (pzipmv locs scs eps) (qzipmv locsQ scsQ eps).
Proof.
  induction locs; intros locsQ scs scsQ eps H1 H2; inversion H1; subst; simpl. { constructor. }
  inversion H2; subst; simpl. { constructor. }
  constructor. { rewrite peval_padd, peval_pscale, H3, H. ring. } apply IHlocs; assumption.
Qed.

Theorem spec_is_function t p : wf prim_exact p = true ->
  forall envP envQ benv rs d, RelE t envP envQ ->
  peval (specP p envP benv rs d PKid) t == valueQ true p envQ benv rs d Kid.
Proof.
  induction p; intros Hwf envP envQ benv rs d HR.
  - simpl in Hwf. simpl. apply ppeval_qeval; assumption.
  - destruct (wf_sample _ _ _ _ Hwf) as [Hex [Hok [Har [Hk Htl]]]].
    cbn [specP valueQ]. apply psite_vsite; try assumption.
    + rewrite map_length. assumption.
    + apply ppeval_qeval_args; assumption.
    + intros [b|P] [b'|q] d' Hrel; simpl in Hrel; try contradiction.
      * subst. apply IHp; assumption.
      * apply IHp; try assumption. constructor; assumption.
  - destruct (wf_mvdiag _ _ _ _ Hwf) as [Hlen [Hl [Hs [Hk Hnd]]]].
    cbn [specP valueQ]. apply IHp; [assumption|].
    apply Forall2_app; [|assumption]. apply F2_rev. apply pzipmv_rel; apply ppeval_qeval_args; assumption.
  - simpl in Hwf. apply andb_true_iff in Hwf. destruct Hwf as [Ha Hk].
    cbn [specP valueQ]. rewrite peval_padd, (ppeval_qeval t e Ha envP envQ benv HR), (IHp Hk envP envQ benv rs d HR). reflexivity.
  - destruct (wf_cond _ _ _ _ _ Hwf) as [Hw1 [Hw2 [Hw3 Hshape]]].
    cbn [specP valueQ]. destruct Hshape as [[Hr1 Hr2]|Htl].
    + destruct p1; try discriminate. destruct p2; try discriminate. simpl in Hw1, Hw2. cbn [specP valueQ].
      destruct (nth c benv false); apply IHp3; try assumption; constructor; try assumption; apply ppeval_qeval; assumption.
    + destruct p3; try discriminate. destruct e; try discriminate. destruct i; try discriminate.
      cbn [specP valueQ ppeval qeval nth].
      change (fun (r : poly) (d' : nat) => PKid r d') with PKid.
      change (fun (r : Q) (d' : nat) => Kid r d') with Kid.
      destruct (nth c benv false); [apply IHp1|apply IHp2]; assumption.
Qed.

(* ---------------------------------------------------------------------------- *)
(* (b) primal = the program's value for the sampled randomness                     *)
(* ---------------------------------------------------------------------------- *)
Definition RelQ (env : list dual) (envQ : list Q) : Prop := Forall2 (fun d q => fst d == q) env envQ.
Lemma RelQ_nth env envQ : RelQ env envQ -> forall i, fst (nth i env (0, 0)) == nth i envQ 0.
Proof. induction 1; intros [|i]; simpl; try assumption; try reflexivity. apply IHForall2. Qed.

Lemma deval_qeval e : arith e = true -> forall env envQ benv, RelQ env envQ ->
  fst (deval e env benv) == qeval e envQ benv.
Proof.
  induction e; simpl; intros Ha env envQ benv HR; try discriminate.
  - reflexivity.
  - apply RelQ_nth. assumption.
  - apply andb_true_iff in Ha. destruct Ha. rewrite IHe1, IHe2 by eassumption. reflexivity.
  - apply andb_true_iff in Ha. destruct Ha. rewrite IHe1, IHe2 by eassumption. reflexivity.
  - apply andb_true_iff in Ha. destruct Ha. rewrite IHe1, IHe2 by eassumption. reflexivity.
  - rewrite IHe by eassumption. reflexivity.
  - apply andb_true_iff in Ha. destruct Ha. destruct (nth c benv false); [apply IHe1|apply IHe2]; assumption.
Qed.
Lemma deval_qeval_args args : forallb arith args = true -> forall env envQ benv, RelQ env envQ ->
  Forall2 (fun d q => fst d == q) (map (fun e => deval e env benv) args) (map (fun e => qeval e envQ benv) args).
Proof.
  induction args; simpl; intros Ha env envQ benv HR. { constructor. }
  apply andb_true_iff in Ha. destruct Ha. constructor. { apply deval_qeval; assumption. } apply IHargs; assumption.
Qed.

Definition dqrel (v : bval) (vQ : qbval) : Prop :=
  match v, vQ with
  | BB b, QB b' => b = b'
  | BR x, QR q => fst x == q
  | _, _ => False
  end.

Definition prim_run (pr : prim) : bool := true.

Lemma vsite_nodraw avg pr : forall args rs d rs' d' K K',
  prim_draws pr = false -> (forall v d1 d2, K v d1 = K' v d2) ->
  vsite avg pr args rs d K = vsite avg pr args rs' d' K'.
Proof.
  induction pr; intros args rs d rs' d' K K' Hd HK; simpl in Hd; try discriminate; simpl.
  - destruct args as [|p [|? ?]]; try reflexivity. rewrite (HK (QB true) d d'), (HK (QB false) d d'). reflexivity.
  - destruct args as [|p [|? ?]]; try reflexivity. rewrite (HK (QB true) d d'), (HK (QB false) d d'). reflexivity.
  - generalize 0%nat. induction args; intros n; simpl. { reflexivity. } rewrite (HK _ d d'), IHargs. reflexivity.
  - destruct args as [|b args]; try reflexivity. apply IHpr; assumption.
Qed.
Lemma valueQ_nodraw avg p : draws p = false ->
  forall env benv rs d rs' d' K K', (forall r d1 d2, K r d1 = K' r d2) ->
  valueQ avg p env benv rs d K = valueQ avg p env benv rs' d' K'.
Proof.
  induction p; simpl; intros Hd env benv rs d rs' d' K K' HK.
  - apply HK.
  - apply orb_false_iff in Hd. destruct Hd as [H1 H2].
    apply vsite_nodraw; [assumption|]. intros [b|x] d1 d2; apply IHp; assumption.
  - discriminate.
  - rewrite (IHp Hd env benv rs d rs' d' K K' HK). reflexivity.
  - apply orb_false_iff in Hd. destruct Hd as [Hd H3]. apply orb_false_iff in Hd. destruct Hd as [H1 H2].
    destruct (nth c benv false); [apply IHp1|apply IHp2]; try assumption;
      intros r d1 d2; apply IHp3; assumption.
Qed.

Lemma siteT_shift_fst pr : forall args rs d KT b,
  prim_ok pr (length args) = true ->
  fst (siteT pr args rs d (fun v d' => dsub (KT v d') b)) == fst (siteT pr args rs d KT) - fst b.
Proof.
  induction pr; intros args rs d KT b Hok; simpl in Hok; try discriminate.
  - destruct args as [|p [|? ?]]; try discriminate. simpl. ring.
  - destruct args as [|p [|? ?]]; try discriminate. simpl. reflexivity.
  - destruct args as [|m [|s [|? ?]]]; try discriminate. simpl. reflexivity.
  - destruct args as [|m [|s [|? ?]]]; try discriminate. simpl. reflexivity.
  - destruct args as [|b0 args]; try discriminate. simpl.
    rewrite (IHpr args rs d (fun v d' => dsub (KT v d') b) b0) by assumption.
    rewrite (IHpr args rs d KT b) by assumption.
    rewrite (IHpr args rs d KT b0) by assumption. ring.
Qed.

Lemma site_primal pr : forall args argsQ rs d KT KQ,
  prim_ok pr (length args) = true ->
  Forall2 (fun d q => fst d == q) args argsQ ->
  (forall v vQ d', dqrel v vQ -> fst (KT v d') == KQ vQ d') ->
  (prim_tail pr = true -> forall vQ d1 d2, KQ vQ d1 = KQ vQ d2) ->
  fst (siteT pr args rs d KT) == vsite false pr argsQ rs d KQ.
Proof.
  induction pr; intros args argsQ rs d KT KQ Hok Hargs HK Htail; simpl in Hok; try discriminate.
  - destruct args as [|p [|? ?]]; try discriminate.
    inversion Hargs as [|? q ? ? Hp Hrest]; subst. inversion Hrest; subst. simpl.
    rewrite (HK (BB true) (QB true) d), (HK (BB false) (QB false) d), Hp by reflexivity. ring.
  - destruct args as [|p [|? ?]]; try discriminate.
    inversion Hargs as [|? q ? ? Hp Hrest]; subst. inversion Hrest; subst. simpl.
    rewrite (qlt_proper _ (du (rs d)) _ q) by (try reflexivity; assumption).
    apply HK. reflexivity.
  - destruct args as [|m [|s [|? ?]]]; try discriminate.
    inversion Hargs as [|? mq ? ? Hm Hrest]; subst. inversion Hrest as [|? sq ? ? Hs Hrest']; subst. inversion Hrest'; subst.
    simpl. rewrite <- (Htail eq_refl _ d (S d)). apply HK. simpl. rewrite Hm, Hs. ring.
  - destruct args as [|m [|s [|? ?]]]; try discriminate.
    inversion Hargs as [|? mq ? ? Hm Hrest]; subst. inversion Hrest as [|? sq ? ? Hs Hrest']; subst. inversion Hrest'; subst.
    simpl. apply HK. simpl. rewrite Hm, Hs. reflexivity.
  - destruct args as [|b args]; try discriminate.
    inversion Hargs as [|? bq ? argsQ' Hb Hrest]; subst. simpl.
    rewrite siteT_shift_fst by assumption.
    rewrite (IHpr args argsQ' rs d KT KQ) by assumption. ring.
Qed.

Theorem primal_is_value sel p : wf sel p = true ->
  forall env envQ benv rs d, RelQ env envQ ->
  fst (interpT p env benv rs d) == valueQ false p envQ benv rs d Kid.
Proof.
  induction p; intros Hwf env envQ benv rs d HR.
  - simpl in Hwf. simpl. apply deval_qeval; assumption.
  - destruct (wf_sample _ _ _ _ Hwf) as [Hex [Hok [Har [Hk Htl]]]].
    cbn [interpT valueQ]. apply site_primal.
    + rewrite map_length. assumption.
    + apply deval_qeval_args; assumption.
    + intros [b|x] [b'|q] d' Hrel; simpl in Hrel; try contradiction.
      * subst. apply IHp; assumption.
      * apply IHp; try assumption. constructor; assumption.
    + intros Ht [b|x] d1 d2; apply valueQ_nodraw; try (apply Htl; assumption); intros; reflexivity.
  - destruct (wf_mvdiag _ _ _ _ Hwf) as [Hlen [Hl [Hs [Hk Hnd]]]].
    cbn [interpT valueQ].
    rewrite <- (valueQ_nodraw false p Hnd _ benv rs d rs (S d) Kid Kid) by (intros; reflexivity).
    apply IHp; [assumption|].
    apply Forall2_app; [|assumption]. apply F2_rev.
    generalize (dv (rs d)).
    assert (A := deval_qeval_args locs Hl env envQ benv HR). assert (B := deval_qeval_args scales Hs env envQ benv HR).
    revert A B. generalize (map (fun e => deval e env benv) locs) (map (fun e => qeval e envQ benv) locs)
                          (map (fun e => deval e env benv) scales) (map (fun e => qeval e envQ benv) scales).
    induction l; intros lq s sq A B eps; inversion A as [|? ? ? ? Ha1 Ha2]; subst; simpl. { constructor. }
    inversion B as [|? ? ? ? Hb1 Hb2]; subst; simpl. { constructor. }
    constructor. { simpl. rewrite Ha1, Hb1. reflexivity. } apply IHl; assumption.
  - simpl in Hwf. apply andb_true_iff in Hwf. destruct Hwf as [Ha Hk].
    cbn [interpT valueQ]. simpl. rewrite (deval_qeval e Ha env envQ benv HR), (IHp Hk env envQ benv rs d HR). reflexivity.
  - destruct (wf_cond _ _ _ _ _ Hwf) as [Hw1 [Hw2 [Hw3 Hshape]]].
    cbn [interpT valueQ]. destruct Hshape as [[Hr1 Hr2]|Htl].
    + destruct p1; try discriminate. destruct p2; try discriminate. simpl in Hw1, Hw2. cbn [interpT valueQ].
      destruct (nth c benv false); apply IHp3; try assumption; constructor; try assumption; apply deval_qeval; assumption.
    + destruct p3; try discriminate. destruct e; try discriminate. destruct i; try discriminate.
      cbn [interpT valueQ deval qeval nth].
      change (fun (r : Q) (d' : nat) => Kid r d') with Kid.
      destruct (nth c benv false); [apply IHp1|apply IHp2]; assumption.
Qed.
End S.
