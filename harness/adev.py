"""Engine C-adev (C29, C30): ADEV programs from a small grammar, realised on the real
primitives of /repo, the base draws recovered from the key chain, Coq literals for
coq/model/Adev.v, and a model-free oracle in exact Fractions.

Program AST (JSON-able, variables are LEVELS: position in the real / Boolean environment):
  expr: ["c", num, den] | ["v", lvl] | ["add",a,b] | ["sub",a,b] | ["mul",a,b] | ["neg",a]
        | ["div",a,b] | ["log",a] | ["if", blvl, a, b]
  prog: ["ret", e] | ["sample", prim, [args], k] | ["mvdiag", [locs], [scales], k]
        | ["cost", e, k] | ["cond", blvl, t, f, k]
  prim: "flip_enum" | "flip_reinforce" | "normal_reparam" | "normal_reinforce" | "flip_mvd"
        | "flip_enum_parallel" | "categorical_enum_parallel" | "uniform" | ["baseline", prim]
"""
import itertools
import math
from fractions import Fraction as Fr

BOOL_PRIMS = {"flip_enum", "flip_reinforce", "flip_mvd", "flip_enum_parallel"}
BROKEN = {"flip_mvd", "flip_enum_parallel", "categorical_enum_parallel", "uniform"}
COQ_PRIM = {"flip_enum": "PFlipEnum", "flip_reinforce": "PFlipReinforce", "normal_reparam": "PNormalReparam",
            "normal_reinforce": "PNormalReinforce", "flip_mvd": "PFlipMVD", "flip_enum_parallel": "PFlipEnumPar",
            "categorical_enum_parallel": "PCatEnumPar", "uniform": "PUniform"}
NDEPTH = 4


def base_prim(pr):
    while isinstance(pr, (list, tuple)):
        pr = pr[1]
    return pr


def prim_is_bool(pr):
    return base_prim(pr) in BOOL_PRIMS


# ---------------------------------------------------------------------------------
# implementation side
# ---------------------------------------------------------------------------------
def _prim_obj(pr):
    import genjax.adev as A
    if isinstance(pr, (list, tuple)):
        return A.baseline(_prim_obj(pr[1]))
    return getattr(A, pr)


def realise(prog, nparams):
    """the Python source function of an ADEV program (runs under jax tracing)"""
    import jax
    import jax.numpy as jnp
    from genjax.adev import add_cost

    def ev_e(e, renv, benv):
        t = e[0]
        if t == "c": return jnp.float32(e[1] / e[2])
        if t == "v": return renv[e[1]]
        if t == "add": return ev_e(e[1], renv, benv) + ev_e(e[2], renv, benv)
        if t == "sub": return ev_e(e[1], renv, benv) - ev_e(e[2], renv, benv)
        if t == "mul": return ev_e(e[1], renv, benv) * ev_e(e[2], renv, benv)
        if t == "neg": return -ev_e(e[1], renv, benv)
        if t == "div": return ev_e(e[1], renv, benv) / ev_e(e[2], renv, benv)
        if t == "log": return jnp.log(ev_e(e[1], renv, benv))
        if t == "if": return jnp.where(benv[e[1]], ev_e(e[2], renv, benv), ev_e(e[3], renv, benv))
        raise ValueError(e)

    def ev_p(p, renv, benv):
        t = p[0]
        if t == "ret":
            return jnp.asarray(ev_e(p[1], renv, benv), dtype=jnp.float32)
        if t == "sample":
            pr, args, k = p[1], p[2], p[3]
            vals = [ev_e(a, renv, benv) for a in args]
            if base_prim(pr) == "categorical_enum_parallel":
                nb_ = 0
                q = pr
                while isinstance(q, (list, tuple)):
                    nb_, q = nb_ + 1, q[1]
                x = _prim_obj(pr)(*vals[:nb_], jnp.stack(vals[nb_:]))
                return ev_p(k, renv + [x.astype(jnp.float32)], benv)
            x = _prim_obj(pr)(*vals)
            if prim_is_bool(pr):
                return ev_p(k, renv, benv + [x])
            return ev_p(k, renv + [x], benv)
        if t == "mvdiag":
            locs = [ev_e(a, renv, benv) for a in p[1]]
            scs = [ev_e(a, renv, benv) for a in p[2]]
            import genjax.adev as A
            x = A.mv_normal_diag_reparam(jnp.stack(locs), jnp.stack(scs))
            return ev_p(p[3], renv + [x[i] for i in range(len(locs))], benv)
        if t == "cost":
            add_cost(ev_e(p[1], renv, benv))
            return ev_p(p[2], renv, benv)
        if t == "cond":
            x = jax.lax.cond(benv[p[1]], lambda: ev_p(p[2], renv, benv), lambda: ev_p(p[3], renv, benv))
            return ev_p(p[4], renv + [x], benv)
        raise ValueError(p)

    def source(*params):
        assert len(params) == nparams
        return ev_p(prog, list(params), [])

    return source


def draws_for(seed, ndepth=NDEPTH):
    """base draws of the key chain k_0 = key(seed); (k_{d+1}, sub_d) = split(k_d):
    u = uniform, e = normal, ev = normal vector of length 2, all with sub_d -- drawn with the
    same TFP calls the primitives make"""
    import jax
    from tensorflow_probability.substrates import jax as tfp
    tfd = tfp.distributions
    key = jax.random.key(seed)
    out = []
    for _ in range(ndepth):
        key, sub = jax.random.split(key)
        u = float(tfd.Uniform(low=0.0, high=1.0).sample(seed=sub))
        e = float(tfd.Normal(loc=0.0, scale=1.0).sample(seed=sub))
        ev = [float(x) for x in tfd.Normal(loc=0.0, scale=1.0).sample(sample_shape=(2,), seed=sub)]
        out.append((u, e, ev))
    return out


def run_impl(prog, params, tangents, seed, what):
    """what in jvp | grad | est.  Returns the canonical output (floats) or None when the
    implementation raises."""
    import jax
    from genjax.adev import expectation, Dual
    f = expectation(realise(prog, len(params)))
    key = jax.random.key(seed)
    try:
        if what == "jvp":
            d = f.jvp_estimate(key, tuple(Dual(float(p), float(t)) for p, t in zip(params, tangents)))
            return (float(d.primal), float(d.tangent))
        if what == "grad":
            g = f.grad_estimate(key, tuple(float(p) for p in params))
            return [float(x) for x in g]
        if what == "est":
            return float(f.estimate(key, tuple(float(p) for p in params)))
    except (TypeError, ValueError, NotImplementedError, IndexError, AssertionError) as e:
        return None
    raise ValueError(what)


# ---------------------------------------------------------------------------------
# Coq literals
# ---------------------------------------------------------------------------------
def cq(x):
    """exact rational literal of a float / Fraction / int"""
    fr = Fr(x)
    n, d = fr.numerator, fr.denominator
    return f"(({n})#{d})" if n < 0 else f"({n}#{d})"


def c_expr(e, nr, nb):
    t = e[0]
    if t == "c": return f"(EC {cq(Fr(e[1], e[2]))})"
    if t == "v": return f"(EV {nr - 1 - e[1]}%nat)"
    if t in ("add", "sub", "mul", "div"):
        return f"(E{t.capitalize()} {c_expr(e[1], nr, nb)} {c_expr(e[2], nr, nb)})"
    if t == "neg": return f"(ENeg {c_expr(e[1], nr, nb)})"
    if t == "log": return f"(ELog {c_expr(e[1], nr, nb)})"
    if t == "if": return f"(EIf {nb - 1 - e[1]}%nat {c_expr(e[2], nr, nb)} {c_expr(e[3], nr, nb)})"
    raise ValueError(e)


def c_prim(pr):
    if isinstance(pr, (list, tuple)):
        return f"(PBaseline {c_prim(pr[1])})"
    return COQ_PRIM[pr]


def c_prog(p, nr, nb):
    t = p[0]
    if t == "ret": return f"(Ret {c_expr(p[1], nr, nb)})"
    if t == "sample":
        args = "[" + "; ".join(c_expr(a, nr, nb) for a in p[2]) + "]"
        k = c_prog(p[3], nr, nb + 1) if prim_is_bool(p[1]) else c_prog(p[3], nr + 1, nb)
        return f"(Sample {c_prim(p[1])} {args} {k})"
    if t == "mvdiag":
        locs = "[" + "; ".join(c_expr(a, nr, nb) for a in p[1]) + "]"
        scs = "[" + "; ".join(c_expr(a, nr, nb) for a in p[2]) + "]"
        return f"(SampleMvDiag {locs} {scs} {c_prog(p[3], nr + len(p[1]), nb)})"
    if t == "cost": return f"(AddCost {c_expr(p[1], nr, nb)} {c_prog(p[2], nr, nb)})"
    if t == "cond":
        return f"(Cond {nb - 1 - p[1]}%nat {c_prog(p[2], nr, nb)} {c_prog(p[3], nr, nb)} {c_prog(p[4], nr + 1, nb)})"
    raise ValueError(p)


def c_draws(ds):
    return "[" + "; ".join("{| du := %s; de := %s; dv := [%s] |}" % (cq(u), cq(e), "; ".join(cq(x) for x in ev))
                           for u, e, ev in ds) + "]"


def c_opt(x, f):
    return "None" if x is None else f"(Some {f(x)})"


def c_dual(d):
    return f"({cq(d[0])}, {cq(d[1])})"


def c_qlist(l):
    return "[" + "; ".join(cq(x) for x in l) + "]"


# ---------------------------------------------------------------------------------
# model-free oracle: the program's value in exact Fractions, by brute-force recursion over
# the program text (flips enumerated or taken from the draws); derivatives of the
# (polynomial) expectation by exact interpolation.
# ---------------------------------------------------------------------------------
class NotPolynomial(Exception):
    pass


def o_expr(e, renv, benv):
    t = e[0]
    if t == "c": return Fr(e[1], e[2])
    if t == "v": return renv[e[1]]
    if t == "add": return o_expr(e[1], renv, benv) + o_expr(e[2], renv, benv)
    if t == "sub": return o_expr(e[1], renv, benv) - o_expr(e[2], renv, benv)
    if t == "mul": return o_expr(e[1], renv, benv) * o_expr(e[2], renv, benv)
    if t == "neg": return -o_expr(e[1], renv, benv)
    if t == "div": return o_expr(e[1], renv, benv) / o_expr(e[2], renv, benv)
    if t == "if": return o_expr(e[2], renv, benv) if benv[e[1]] else o_expr(e[3], renv, benv)
    raise NotPolynomial(t)


def o_value(p, renv, benv, ds, d, K, avg, thresholds=None):
    """true semantics: every sampling site has its own draw (depth d advances at every drawing site);
    avg: average every flip; else flip_reinforce takes u<p from the draws; enumerators always average"""
    t = p[0]
    if t == "ret":
        return K(o_expr(p[1], renv, benv), d)
    if t == "cost":
        return o_expr(p[1], renv, benv) + o_value(p[2], renv, benv, ds, d, K, avg, thresholds)
    if t == "cond":
        br = p[2] if benv[p[1]] else p[3]
        return o_value(br, renv, benv, ds, d, lambda r, d2: o_value(p[4], renv + [r], benv, ds, d2, K, avg, thresholds), avg, thresholds)
    if t == "mvdiag":
        locs = [o_expr(a, renv, benv) for a in p[1]]
        scs = [o_expr(a, renv, benv) for a in p[2]]
        xs = [l + s * Fr(ds[d][2][i]) for i, (l, s) in enumerate(zip(locs, scs))]
        return o_value(p[3], renv + xs, benv, ds, d + 1, K, avg, thresholds)
    pr, args, k = p[1], p[2], p[3]
    vals = [o_expr(a, renv, benv) for a in args]
    while isinstance(pr, (list, tuple)):
        pr, vals = pr[1], vals[1:]
    if pr in ("flip_enum", "flip_reinforce"):
        (q,) = vals
        nd = d if pr == "flip_enum" else d + 1
        if pr == "flip_reinforce" and thresholds is not None:
            thresholds.setdefault(d, set()).add(q)
        if pr == "flip_enum" or avg:
            return (q * o_value(k, renv, benv + [True], ds, nd, K, avg, thresholds)
                    + (1 - q) * o_value(k, renv, benv + [False], ds, nd, K, avg, thresholds))
        v = Fr(ds[d][0]) < q
        return o_value(k, renv, benv + [v], ds, nd, K, avg, thresholds)
    if pr in ("normal_reparam", "normal_reinforce"):
        mu, sg = vals
        return o_value(k, renv + [mu + sg * Fr(ds[d][1])], benv, ds, d + 1, K, avg, thresholds)
    raise NotPolynomial(pr)


def o_expect(prog, params, ds, avg, thresholds=None):
    return o_value(prog, [Fr(x) for x in params], [], ds, 0, lambda r, d: r, avg, thresholds)


def degree_bound(p):
    def de(e):
        t = e[0]
        if t in ("c",): return 0
        if t == "v": return 1
        if t in ("add", "sub"): return max(de(e[1]), de(e[2]))
        if t == "mul": return de(e[1]) + de(e[2])
        if t == "neg": return de(e[1])
        if t == "if": return max(de(e[2]), de(e[3]))
        return 1
    # crude: every binding can raise the degree of a variable; bound by total multiplicative size
    def sz(p):
        t = p[0]
        if t == "ret": return de(p[1])
        if t == "cost": return de(p[1]) + sz(p[2])
        if t == "cond": return sz(p[2]) + sz(p[3]) + sz(p[4])
        if t == "mvdiag": return sum(de(a) for a in p[1] + p[2]) + sz(p[3])
        return sum(de(a) for a in p[2]) + 1 + sz(p[3])
    return sz(p)


def o_derivative(prog, params, tangents, ds):
    """exact d/dtheta at 0 of theta -> E[prog](params + theta * tangents) (a polynomial of degree <= D):
    Lagrange interpolation through D+1 exact points"""
    D = 2 * degree_bound(prog) + 2
    D = min(D, 24)
    pts = [Fr(i, 64) for i in range(-(D // 2), D - D // 2 + 1)]
    pts = [t for t in pts]
    vals = [o_expect(prog, [Fr(x) + t * Fr(v) for x, v in zip(params, tangents)], ds, True) for t in pts]
    # derivative at 0 of the interpolating polynomial
    n = len(pts)
    dsum = Fr(0)
    for i in range(n):
        # L_i'(0) = sum_{j != i} [ prod_{m != i, j} (0 - t_m) ] / prod_{m != i} (t_i - t_m)
        den = Fr(1)
        for m in range(n):
            if m != i:
                den *= pts[i] - pts[m]
        num = Fr(0)
        for j in range(n):
            if j == i:
                continue
            pr_ = Fr(1)
            for m in range(n):
                if m != i and m != j:
                    pr_ *= -pts[m]
            num += pr_
        dsum += vals[i] * num / den
    return dsum


def close(a, b, scale, tol=2e-5):
    return abs(float(a) - float(b)) <= tol * scale


# ---------------------------------------------------------------------------------
# generator
# ---------------------------------------------------------------------------------
PROB_VALUES = [Fr(k, 8) for k in range(1, 8)]
SCALE_VALUES = [Fr(1, 2), Fr(1), Fr(3, 2), Fr(2)]
REAL_VALUES = [Fr(k, 4) for k in range(-6, 7)]


class Gen:
    """structured generator.  Parameter kinds: 'p' (a probability in (0,1)), 's' (a positive scale), 'r' (any real)"""

    def __init__(self, rng, prims, allow_cond=True, allow_cost=True, region=True):
        self.rng, self.prims, self.allow_cond, self.allow_cost, self.region = rng, prims, allow_cond, allow_cost, region

    def const(self):
        return ["c", self.rng.choice([-2, -1, 1, 2, 3, 1, 1]), self.rng.choice([1, 2, 4])]

    def prob_expr(self, kinds, nb):
        r = self.rng
        ps = [i for i, k in enumerate(kinds) if k == "p"]
        c = r.random()
        if ps and c < 0.5:
            return ["v", r.choice(ps)]
        if ps and c < 0.65:
            return ["sub", ["c", 1, 1], ["v", r.choice(ps)]]
        if ps and c < 0.75:
            return ["mul", ["v", r.choice(ps)], ["v", r.choice(ps)]]
        if nb and c < 0.9:
            a = ["v", r.choice(ps)] if ps and r.random() < 0.5 else ["c", r.choice([1, 3, 5, 7]), 8]
            return ["if", r.randrange(nb), a, ["c", r.choice([1, 2, 3]), 4]]
        return ["c", r.choice([1, 3, 5, 7]), 8]

    def scale_expr(self, kinds, nb):
        r = self.rng
        ss = [i for i, k in enumerate(kinds) if k == "s"]
        if ss and r.random() < 0.6:
            return ["v", r.choice(ss)]
        if nb and r.random() < 0.3:
            return ["if", r.randrange(nb), ["c", 1, 2], ["c", 3, 2]]
        return ["c", r.choice([1, 1, 3, 2]), r.choice([1, 2])]

    def real_expr(self, kinds, nb, depth=2):
        r = self.rng
        n = len(kinds)
        c = r.random()
        if depth == 0 or c < 0.3:
            if n and r.random() < 0.75:
                return ["v", r.randrange(n)]
            return self.const()
        if c < 0.45: return ["add", self.real_expr(kinds, nb, depth - 1), self.real_expr(kinds, nb, depth - 1)]
        if c < 0.55: return ["sub", self.real_expr(kinds, nb, depth - 1), self.real_expr(kinds, nb, depth - 1)]
        if c < 0.75: return ["mul", self.real_expr(kinds, nb, depth - 1), self.real_expr(kinds, nb, depth - 1)]
        if c < 0.8: return ["neg", self.real_expr(kinds, nb, depth - 1)]
        if nb: return ["if", r.randrange(nb), self.real_expr(kinds, nb, depth - 1), self.real_expr(kinds, nb, depth - 1)]
        return ["mul", self.real_expr(kinds, nb, depth - 1), self.const()]

    def prog(self, kinds, nb, sites, tail_ok=True, may_draw=True, budget=5):
        """kinds: kinds of the real variables in scope; nb: Boolean variables in scope; sites: remaining budget.
        may_draw: drawing sites still allowed (region: nothing draws after a tail-call site)"""
        r = self.rng
        c = r.random()
        if budget <= 0:
            return ["ret", self.real_expr(kinds, nb, 2)]
        budget -= 1
        avail = [p for p in self.prims if may_draw or not prim_draws(p)]
        if sites > 0 and avail and c < 0.62:
            pr = r.choice(avail)
            b = base_prim(pr)
            args = []
            q = pr
            while isinstance(q, (list, tuple)):
                args.append(self.real_expr(kinds, nb, 1))
                q = q[1]
            if b in BOOL_PRIMS:
                args.append(self.prob_expr(kinds, nb))
                md = may_draw
                return ["sample", pr, args, self.prog(kinds, nb + 1, sites - 1, tail_ok, md, budget)]
            if b in ("normal_reparam", "normal_reinforce"):
                args += [self.real_expr(kinds, nb, 1), self.scale_expr(kinds, nb)]
                md = may_draw and not (self.region and b == "normal_reparam")
                return ["sample", pr, args, self.prog(kinds + ["r"], nb, sites - 1, tail_ok, md, budget)]
            if b == "uniform":
                return ["sample", pr, args, self.prog(kinds + ["p"], nb, sites - 1, tail_ok, may_draw, budget)]
            if b == "categorical_enum_parallel":
                args += [["c", 1, 4], ["c", 1, 4], ["c", 1, 2]]
                return ["sample", pr, args, self.prog(kinds + ["r"], nb, sites - 1, tail_ok, may_draw, budget)]
        if sites > 0 and "mvdiag" in self.prims and may_draw and c < 0.68:
            locs = [self.real_expr(kinds, nb, 1), self.real_expr(kinds, nb, 1)]
            scs = [self.scale_expr(kinds, nb), self.scale_expr(kinds, nb)]
            return ["mvdiag", locs, scs, self.prog(kinds + ["r", "r"], nb, sites - 1, tail_ok, may_draw and not self.region, budget)]
        if self.allow_cost and c < 0.75:
            return ["cost", self.real_expr(kinds, nb, 1), self.prog(kinds, nb, sites, tail_ok, may_draw, budget - 1)]
        if self.allow_cond and nb and c < 0.9:
            cvar = r.randrange(nb)
            if tail_ok and sites > 0 and r.random() < 0.4:
                # sampling branches: only in tail position (region)
                t = self.prog(kinds, nb, sites - 1, True, may_draw, budget - 1)
                f = self.prog(kinds, nb, max(sites - 1, 0), True, may_draw, budget - 1)
                return ["cond", cvar, t, f, ["ret", ["v", len(kinds)]]]
            t = ["ret", self.real_expr(kinds, nb, 2)]
            f = ["ret", self.real_expr(kinds, nb, 2)]
            return ["cond", cvar, t, f, self.prog(kinds + ["r"], nb, sites, tail_ok, may_draw, budget)]
        return ["ret", self.real_expr(kinds, nb, 2)]

    def params(self, nparams):
        r = self.rng
        kinds = [r.choice("pprs") for _ in range(nparams)]
        if "p" not in kinds:
            kinds[0] = "p"
        vals = [r.choice(PROB_VALUES) if k == "p" else r.choice(SCALE_VALUES) if k == "s" else r.choice(REAL_VALUES) for k in kinds]
        tans = [Fr(r.choice([-2, -1, 0, 1, 1, 2, 3]), r.choice([1, 2])) for _ in kinds]
        if all(t == 0 for t in tans):
            tans[0] = Fr(1)
        return kinds, vals, tans


def prim_draws(pr):
    return base_prim(pr) not in ("flip_enum", "flip_enum_parallel", "categorical_enum_parallel")


def prog_sites(p):
    t = p[0]
    if t == "ret": return []
    if t == "sample": return [base_prim(p[1])] + (["baseline"] if isinstance(p[1], (list, tuple)) else []) + prog_sites(p[3])
    if t == "mvdiag": return ["mvdiag"] + prog_sites(p[3])
    if t == "cost": return ["add_cost"] + prog_sites(p[2])
    if t == "cond": return ["cond"] + prog_sites(p[2]) + prog_sites(p[3]) + prog_sites(p[4])
    return []


# ---------------------------------------------------------------------------------
# workers (one process per core; jax is imported in the worker)
# ---------------------------------------------------------------------------------
def work(job):
    """job = (prog, params(float), tangents(float), seed, what) -> (output, draws)"""
    import warnings
    warnings.filterwarnings("ignore")
    prog, params, tangents, seed, what = job
    out = run_impl(prog, params, tangents, seed, what)
    return out, draws_for(seed)


def run_jobs(jobs, workers=8):
    import multiprocessing as mp
    import os
    from concurrent.futures import ProcessPoolExecutor
    if not jobs:
        return []
    # one thread per worker: the programs are scalar, XLA's thread pools only cause contention
    os.environ["XLA_FLAGS"] = (os.environ.get("XLA_FLAGS", "") + " --xla_cpu_multi_thread_eigen=false intra_op_parallelism_threads=1").strip()
    for v in ("OMP_NUM_THREADS", "OPENBLAS_NUM_THREADS", "MKL_NUM_THREADS"):
        os.environ[v] = "1"
    with ProcessPoolExecutor(max_workers=min(workers, max(1, len(jobs))), mp_context=mp.get_context("spawn")) as ex:
        return list(ex.map(work, jobs, chunksize=max(1, len(jobs) // (workers * 4))))


def uniform_table(nseeds=4096, ndepth=3):
    """u_d of the key chain for seeds 0..nseeds-1 (vectorised; jax.random.uniform == the TFP draw)"""
    import jax, jax.numpy as jnp

    def us(seed):
        key = jax.random.key(seed)
        out = []
        for _ in range(ndepth):
            key, sub = jax.random.split(key)
            out.append(jax.random.uniform(sub, (), jnp.float32))
        return jnp.stack(out)

    import numpy as np
    return np.asarray(jax.jit(jax.vmap(us))(jnp.arange(nseeds)))


def fr_json(x):
    x = Fr(x)
    return [x.numerator, x.denominator]


def fr_of(j):
    return Fr(j[0], j[1])
