#!/bin/bash
# Build the framework from files on disk only (offline): regenerate gen/*.v from
# /repo's source, full .vo build of the Coq development, scan for forbidden
# vernacular.  Exit 0 when the development builds.
cd "$(dirname "$0")"
export PYTHONPATH=/repo/src:$PWD PYTHONHASHSEED=0 JAX_PLATFORMS=cpu
mkdir -p out evidence coq/cases
/venv/bin/python - <<'PY'
import sys
from harness import core
bad = core.scan_forbidden()
if bad:
    print("forbidden vernacular:", bad); sys.exit(1)
ok, log, rok, rlog = core.build(timeout=3000)
print(rlog.strip())
if not ok:
    print(log[-3000:]); sys.exit(1)
print("coq development built:", len(core.coq_sources()), "files")
PY
