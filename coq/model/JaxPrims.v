(* A concrete primitive set for the A-jaxpr correspondence: integer-valued scalars
   and 1-d arrays, the lax primitives the generator's grammar produces, and the
   structured primitives (pjit/custom_jvp_call/remat = call, cond, scan, while,
   genjax's InitialStylePrimitive) whose parameters contain sub-jaxprs.  Their
   meaning is the reference evaluator of Jaxpr.v applied to the sub-jaxpr, with
   fuel.  This is the instantiation of the abstract `psem` of the theorems that
   the case files evaluate; it models JAX, not genjax.

   Then the correspondence cases (`icase` for incremental.py, `scase` for
   stateful.py) and their `...mismatches` functions.  No proofs in this file. *)
From Coq Require Import List Bool ZArith.
Import ListNotations.
From Model Require Import Jaxpr Stateful Incr.
Open Scope Z_scope.

(* dtype is erased: bool = 0/1, int32 and float32 hold small integers *)
Inductive cval := VS (z : Z) | VV (l : list Z).
Inductive cmpop := CLt | CLe | CGt | CGe | CEq | CNe.

Inductive cprim :=
| PAdd | PSub | PMul | PNeg | PMax | PMin | PAbs | PSign | PIntPow (y : nat)
| PCmp (c : cmpop) | PSelectN | PToBool | PId | PAnd | POr | PNot | PClamp
| PSlice (start limit : nat) | PSqueeze | PDynSlice (size : nat)
| PBroadcast (shape : option nat) | PReshape (shape : option nat)
| PReduceSum | PReduceMax | PReduceMin | PDot | PCumsum (reverse : bool) | PConcat | PIota (n : nat)
(* pjit, custom_jvp_call, custom_vjp_call_jaxpr, remat2, closed_call: run the sub-jaxpr *)
| PCall (j : jaxpr cprim cval) (consts : list cval)
(* cond[branches]: first operand is the branch index *)
| PCond (branches : list (jaxpr cprim cval * list cval))
(* scan[jaxpr length num_consts num_carry reverse] *)
| PScan (j : jaxpr cprim cval) (consts : list cval) (len nconsts ncarry : nat) (reverse : bool)
(* while[cond_jaxpr body_jaxpr cond_nconsts body_nconsts] *)
| PWhile (cj : jaxpr cprim cval) (cconsts : list cval) (bj : jaxpr cprim cval) (bconsts : list cval) (cn bn : nat)
(* genjax initial_style_primitive.py: InitialStylePrimitive bound by initial_style_bind;
   `impl( *args) = eval_jaxpr(jaxpr, args[:num_consts], *args[num_consts:])` *)
| PInitial (j : jaxpr cprim cval) (nconsts : nat).

(* ---- elementwise helpers ---- *)
Fixpoint zipw (f : Z -> Z -> Z) (l m : list Z) : list Z :=
  match l, m with a :: l', b :: m' => f a b :: zipw f l' m' | _, _ => [] end.
Definition ew2 (f : Z -> Z -> Z) (a b : cval) : option cval :=
  match a, b with
  | VS x, VS y => Some (VS (f x y))
  | VV l, VV m => if Nat.eqb (length l) (length m) then Some (VV (zipw f l m)) else None
  | VS x, VV m => Some (VV (map (f x) m))
  | VV l, VS y => Some (VV (map (fun a => f a y) l))
  end.
Definition ew1 (f : Z -> Z) (a : cval) : cval :=
  match a with VS x => VS (f x) | VV l => VV (map f l) end.
Definition b2z (b : bool) : Z := if b then 1 else 0.
Definition cmp_sem (c : cmpop) (x y : Z) : Z :=
  b2z match c with
      | CLt => Z.ltb x y | CLe => Z.leb x y | CGt => Z.ltb y x | CGe => Z.leb y x
      | CEq => Z.eqb x y | CNe => negb (Z.eqb x y)
      end.
Definition bin (f : Z -> Z -> Z) (args : list cval) : option (list cval) :=
  match args with [a; b] => option_map (fun v => [v]) (ew2 f a b) | _ => None end.
Definition un (f : Z -> Z) (args : list cval) : option (list cval) :=
  match args with [a] => Some [ew1 f a] | _ => None end.

(* select_n(which, *cases): a scalar `which` picks a whole case, an array picks elementwise *)
Definition all_vv (cs : list cval) : option (list (list Z)) :=
  mapM (fun c => match c with VV l => Some l | VS _ => None end) cs.
Definition select_n (args : list cval) : option (list cval) :=
  match args with
  | VS w :: cases => if (0 <=? w) then option_map (fun v => [v]) (nth_error cases (Z.to_nat w)) else None
  | VV ws :: cases =>
      obind (all_vv cases) (fun ls =>
      if forallb (fun l => Nat.eqb (length l) (length ws)) ls then
        obind (mapM (fun iw => obind (nth_error ls (Z.to_nat (snd iw))) (fun l => nth_error l (fst iw)))
                    (combine (seq 0 (length ws)) ws)) (fun out => Some [VV out])
      else None)
  | [] => None
  end.

Definition clampz (lo x hi : Z) : Z := Z.min (Z.max x lo) hi.
Definition clamp_sem (args : list cval) : option (list cval) :=
  match args with
  | [VS lo; VS x; VS hi] => Some [VS (clampz lo x hi)]
  | [VS lo; VV l; VS hi] => Some [VV (map (fun x => clampz lo x hi) l)]
  | [VV lo; VV l; VV hi] =>
      if Nat.eqb (length lo) (length l) && Nat.eqb (length hi) (length l)
      then Some [VV (zipw (fun p h => Z.min p h) (zipw Z.max l lo) hi)] else None
  | _ => None
  end.

Definition sumz (l : list Z) : Z := fold_left Z.add l 0.
Fixpoint cumsum_from (acc : Z) (l : list Z) : list Z :=
  match l with [] => [] | a :: r => (acc + a) :: cumsum_from (acc + a) r end.
Definition fold1 (f : Z -> Z -> Z) (l : list Z) : option Z :=
  match l with [] => None | a :: r => Some (fold_left f r a) end.

(* the non-structured primitives *)
Definition prim_basic (p : cprim) (args : list cval) : option (list cval) :=
  match p with
  | PAdd => bin Z.add args
  | PSub => bin Z.sub args
  | PMul => bin Z.mul args
  | PMax => bin Z.max args
  | PMin => bin Z.min args
  | PNeg => un Z.opp args
  | PAbs => un Z.abs args
  | PSign => un Z.sgn args
  | PIntPow y => un (fun x => Z.pow x (Z.of_nat y)) args
  | PCmp c => bin (cmp_sem c) args
  | PSelectN => select_n args
  | PToBool => un (fun x => b2z (negb (Z.eqb x 0))) args
  | PId => un (fun x => x) args
  | PAnd => bin Z.min args            (* on bool operands only (the serialiser checks) *)
  | POr => bin Z.max args
  | PNot => un (fun x => 1 - x) args
  | PClamp => clamp_sem args
  | PSlice s l =>
      match args with [VV v] => if Nat.leb s l && Nat.leb l (length v) then Some [VV (firstn (l - s) (skipn s v))] else None | _ => None end
  | PSqueeze => match args with [VV [z]] => Some [VS z] | _ => None end
  | PDynSlice size =>
      match args with
      | [VV v; VS i] =>
          if Nat.leb size (length v) then
            let start := Z.to_nat (clampz 0 i (Z.of_nat (length v - size))) in
            Some [VV (firstn size (skipn start v))]
          else None
      | _ => None
      end
  | PBroadcast None => match args with [VS z] => Some [VS z] | _ => None end
  | PBroadcast (Some k) =>
      match args with
      | [VS z] => Some [VV (repeat z k)]
      | [VV [z]] => Some [VV (repeat z k)]
      | [VV l] => if Nat.eqb (length l) k then Some [VV l] else None
      | _ => None
      end
  | PReshape None => match args with [VS z] => Some [VS z] | [VV [z]] => Some [VS z] | _ => None end
  | PReshape (Some k) =>
      match args with
      | [VS z] => if Nat.eqb k 1 then Some [VV [z]] else None
      | [VV l] => if Nat.eqb (length l) k then Some [VV l] else None
      | _ => None
      end
  | PReduceSum => match args with [VV l] => Some [VS (sumz l)] | _ => None end
  | PReduceMax => match args with [VV l] => option_map (fun z => [VS z]) (fold1 Z.max l) | _ => None end
  | PReduceMin => match args with [VV l] => option_map (fun z => [VS z]) (fold1 Z.min l) | _ => None end
  | PDot =>
      match args with
      | [VV l; VV m] => if Nat.eqb (length l) (length m) then Some [VS (sumz (zipw Z.mul l m))] else None
      | _ => None
      end
  | PCumsum false => match args with [VV l] => Some [VV (cumsum_from 0 l)] | _ => None end
  | PCumsum true => match args with [VV l] => Some [VV (rev (cumsum_from 0 (rev l)))] | _ => None end
  | PConcat => option_map (fun ls => [VV (concat ls)]) (all_vv args)
  | PIota n => match args with [] => Some [VV (map Z.of_nat (seq 0 n))] | _ => None end
  | _ => None
  end.

(* ---- loops, parametric in the already-closed body function ---- *)
Definition vindex (i : nat) (v : cval) : option cval :=
  match v with VV l => option_map VS (nth_error l i) | VS _ => None end.
(* one pass over the iteration indices; returns final carry and the per-iteration ys *)
Fixpoint scan_go (body : list cval -> option (list cval)) (ncarry : nat) (idxs : list nat)
                 (carry xs : list cval) : option (list cval * list (list cval)) :=
  match idxs with
  | [] => Some (carry, [])
  | i :: r =>
      obind (mapM (vindex i) xs) (fun xi =>
      obind (body (carry ++ xi)) (fun outs =>
      if Nat.ltb (length outs) ncarry then None else
      obind (scan_go body ncarry r (firstn ncarry outs) xs) (fun cy =>
      Some (fst cy, skipn ncarry outs :: snd cy))))
  end.
(* stack the k-th y of every iteration (each must be a scalar) *)
Definition stack_ys (nys : nat) (ys : list (list cval)) : option (list cval) :=
  mapM (fun k => option_map VV (mapM (fun y => match nth_error y k with Some (VS z) => Some z | _ => None end) ys))
       (seq 0 nys).
Definition scan_sem (body : list cval -> option (list cval)) (nys len nconsts ncarry : nat) (reverse : bool)
                    (args : list cval) : option (list cval) :=
  let consts := firstn nconsts args in
  let init := firstn ncarry (skipn nconsts args) in
  let xs := skipn (nconsts + ncarry) args in
  if Nat.ltb (length args) (nconsts + ncarry) then None else
  let idxs := if reverse then rev (seq 0 len) else seq 0 len in
  obind (scan_go (fun a => body (consts ++ a)) ncarry idxs init xs) (fun cy =>
  obind (stack_ys nys (if reverse then rev (snd cy) else snd cy)) (fun ys =>
  Some (fst cy ++ ys))).

Fixpoint while_go (fuel : nat) (cond body : list cval -> option (list cval)) (carry : list cval)
  : option (list cval) :=
  match fuel with
  | O => None
  | S f =>
      match cond carry with
      | Some [VS b] => if Z.eqb b 0 then Some carry else obind (body carry) (while_go f cond body)
      | _ => None
      end
  end.

(* ---- the concrete primitive semantics ---- *)
Fixpoint psem_c (fuel : nat) (p : cprim) (args : list cval) {struct fuel} : option (list cval) :=
  match fuel with
  | O => None
  | S f =>
      match p with
      | PCall j cs => eval_ref (psem_c f) j cs args
      | PCond brs =>
          match args with
          | VS i :: rest =>
              (* XLA conditional: an out-of-range index runs the last branch *)
              let n := length brs in
              let k := if (0 <=? i) && (i <? Z.of_nat n) then Z.to_nat i else (n - 1)%nat in
              match nth_error brs k with
              | Some (j, cs) => eval_ref (psem_c f) j cs rest
              | None => None
              end
          | _ => None
          end
      | PScan j cs len nconsts ncarry reverse =>
          scan_sem (eval_ref (psem_c f) j cs) (length (j_out j) - ncarry) len nconsts ncarry reverse args
      | PWhile cj ccs bj bcs cn bn =>
          if Nat.ltb (length args) (cn + bn) then None else
          let cc := firstn cn args in
          let bc := firstn bn (skipn cn args) in
          while_go f (fun c => eval_ref (psem_c f) cj ccs (cc ++ c))
                     (fun c => eval_ref (psem_c f) bj bcs (bc ++ c))
                     (skipn (cn + bn) args)
      | PInitial j n =>
          (* `consts, args = split_list(args, [num_consts]); jc.eval_jaxpr(jaxpr, consts, *args)` *)
          eval_ref (psem_c f) j (firstn n args) (skipn n args)
      | _ => prim_basic p args
      end
  end.

Definition FUEL : nat := 40.
Definition psem0 := psem_c FUEL.

(* ---- equality tests on observables ---- *)
Fixpoint list_eqb {A} (eq : A -> A -> bool) (a b : list A) : bool :=
  match a, b with [], [] => true | x :: r, y :: s => eq x y && list_eqb eq r s | _, _ => false end.
Definition opt_eqb {A} (eq : A -> A -> bool) (a b : option A) : bool :=
  match a, b with Some x, Some y => eq x y | None, None => true | _, _ => false end.
Definition cval_eqb (a b : cval) : bool :=
  match a, b with
  | VS x, VS y => Z.eqb x y
  | VV l, VV m => list_eqb Z.eqb l m
  | _, _ => false
  end.
Definition obs_cell (c : cell cval) : cval * shape := (primal c, shape_of c).
Definition obs_eqb (a b : cval * shape) : bool := cval_eqb (fst a) (fst b) && shape_eqb (snd a) (snd b).

(* ---- handlers used by the correspondence ---- *)
(* HNone: `None`; HNull: an object whose `handles` is always False;
   HSwap: handles `add`, `mul` and `max`, dispatching them as `sub`, `add` and `min` (and, in the
   incremental interpreter, tagging the result UnknownChange) -- exercises the handler branch of both loops *)
Inductive hkind := HNone | HNull | HSwap.
Definition swap_of (p : cprim) : option cprim :=
  match p with PAdd => Some PSub | PMul => Some PAdd | PMax => Some PMin | _ => None end.
Definition is_swapped (p : cprim) : bool := match swap_of p with Some _ => true | None => false end.
Definition incr_handler (k : hkind) : handler cprim cval :=
  match k with
  | HNone => None
  | HNull => Some (fun _ => false, fun _ _ => None)
  | HSwap => Some (is_swapped, fun p args =>
               match swap_of p with
               | Some q => option_map (map (fun v => Diff v UnknownChange)) (psem0 q (map primal args))
               | None => None
               end)
  end.
Definition st_handles (k : hkind) : cprim -> bool := match k with HSwap => is_swapped | _ => fun _ => false end.
Definition st_dispatch (k : hkind) : cprim -> list cval -> option (list cval) :=
  match k with
  | HSwap => fun p args => match swap_of p with Some q => psem0 q args | None => None end
  | _ => fun _ _ => None
  end.

(* ---- correspondence cases ---- *)
Definition cjaxpr := jaxpr cprim cval.
(* incremental(f)(handler, primals, tangents): flat outputs as (value, Diff tangent | bare) *)
Inductive icase :=
  ICase (j : cjaxpr) (consts args : list cval) (tags : list tag) (h : hkind)
        (impl : option (list (cval * shape)))      (* None: the call raised *)
        (direct : option (list cval)).             (* f( *args) evaluated by JAX; None: not compared *)
Definition icase_ok (c : icase) : bool :=
  match c with
  | ICase j consts args tags h impl direct =>
      opt_eqb (list_eqb obs_eqb)
              (option_map (map obs_cell) (eval_incr psem0 (incr_handler h) j consts args tags)) impl
      && match h, impl with
         | HSwap, _ => true
         | _, Some outs => opt_eqb (list_eqb shape_eqb) (tags_static j tags) (Some (map snd outs))
         | _, None => true
         end
      && match direct with
         | Some d => opt_eqb (list_eqb cval_eqb) (eval_ref psem0 j consts args) (Some d)
         | None => true
         end
  end.
(* stateful(f)(handler, *args): flat outputs *)
Inductive scase :=
  SCase (j : cjaxpr) (consts args : list cval) (h : hkind)
        (impl : option (list cval)) (direct : option (list cval)).
Definition scase_ok (c : scase) : bool :=
  match c with
  | SCase j consts args h impl direct =>
      opt_eqb (list_eqb cval_eqb) (eval_stateful psem0 (st_handles h) (st_dispatch h) j consts args) impl
      && match direct with
         | Some d => opt_eqb (list_eqb cval_eqb) (eval_ref psem0 j consts args) (Some d)
         | None => true
         end
  end.

Fixpoint mism_from {A} (ok : A -> bool) (n : nat) (cs : list A) : list nat :=
  match cs with
  | [] => []
  | c :: r => if ok c then mism_from ok (S n) r else n :: mism_from ok (S n) r
  end.
Definition imismatches := mism_from icase_ok 0.
Definition smismatches := mism_from scase_ok 0.
