"""C02 — engine B-gfi (harness/bgfi.py); theorems in coq/props/C02.v."""
from . import bgfi


def run(ctx):
    bgfi.run_property(ctx, "C02", oracles=bgfi.PROP_ORACLES.get("C02"))


def replay(case):
    return bgfi.replay(case)
