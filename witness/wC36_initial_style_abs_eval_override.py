"""initial_style_bind(prim, abs_eval=...) can never be used: the function passes
`abs_eval=params.get("abs_eval", _abs_eval)` AND `**params` to prim.bind, so a caller-supplied
abs_eval is given twice and Python raises TypeError.  (Outside C36's statement; nothing in genjax
passes abs_eval today.)  exit 0 = the override works, exit 1 = defect shows."""
import sys
import jax, jax.numpy as jnp
from genjax._src.core.compiler.initial_style_primitive import InitialStylePrimitive, initial_style_bind
p = InitialStylePrimitive("w_abs_eval")
try:
    out = initial_style_bind(p, abs_eval=lambda *a, **k: [jax.core.ShapedArray((), jnp.float32)])(lambda x: x * 2)(jnp.float32(3.0))
    print("ok", out); sys.exit(0)
except TypeError as e:
    print("defect: initial_style_bind(prim, abs_eval=...) raises", e); sys.exit(1)
