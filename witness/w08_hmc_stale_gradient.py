"""fixed-defect witness: HMC carried the initial gradient through all leapfrog
steps (the first half-kick of every step used the gradient at the start
position) (C28).  exit 1 if present."""
import sys, jax, jax.numpy as jnp
import genjax
from genjax import gen, normal, ChoiceMap as C, Selection as S, Diff
from genjax._src.inference.requests.hmc import HMC, sample_momenta, selection_gradient

@gen
def model():
    x = normal(0.0, 1.0) @ "x"
    return x

bad = []
eps, L = 0.3, 3
for seed in range(3):
    key = jax.random.key(seed)
    tr = model.simulate(key, ())
    k2 = jax.random.key(seed + 7)
    new_tr, alpha, rd, _ = HMC(S.at["x"], jnp.array(eps), L).edit(k2, tr, ())
    # reference leapfrog with the same momentum draw
    _, sub = jax.random.split(k2)
    vals, grads = selection_gradient(S.at["x"], tr, ())
    mom, _ = sample_momenta(sub, grads)
    q = float(tr.get_choices()["x"]); p = float(mom["x"])
    H0 = 0.5 * q * q + 0.5 * p * p
    for _ in range(L):
        p = p + eps / 2 * (-q)
        q = q + eps * p
        p = p + eps / 2 * (-q)
    H1 = 0.5 * q * q + 0.5 * p * p
    if abs(float(new_tr.get_choices()["x"]) - q) > 1e-4 or abs(float(alpha) - (H0 - H1)) > 1e-4:
        bad.append((seed, float(new_tr.get_choices()["x"]), q, float(alpha), H0 - H1))
print("FAIL" if bad else "OK", bad[:3])
sys.exit(1 if bad else 0)
