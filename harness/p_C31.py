"""C31 — the time-travel debugger records and replays executions faithfully.
Engine A-tt: random straight-line programs with (nested, tagged) record points,
realised with the library's own `rec` / `tag`, run through `time_machine`
(and `_record`) and a navigation / remix script; every observable debugger state
is compared inside Coq with coq/model/TimeTravel.v; the direct oracle re-executes
the program in plain Python (integers), no model involved."""
import json
from . import core
from .core import clist, cz, cnat, cbool, copt

LIM = 1 << 24

# ----------------------------------------------------------------------------
# programs (JSON):  expr = ["v",i] | ["c",z] | ["+",a,b] | ["-",a,b] | ["*",a,b]
#   prog = ["ret",e] | ["let",e,k] | ["rec",tag,g,[args],k] | ["tag",tag,e,k] | ["call",g,[args],k]
#          ("call" = x := jax.jit(g)(args): a sub-jaxpr; record points inside it are outside the region)
#   tag  = None | "" | n  (n -> "_enter" if 0, "exit" if 1, "t<n>" otherwise)
# a variable is the position of its binding: parameters, then one per statement
# ----------------------------------------------------------------------------
def tag_name(t):
    if t is None or t == "":
        return t
    return {0: "_enter", 1: "exit"}.get(t, f"t{t}")


def tag_id(name):
    if name is None or name == "":
        return name
    if name == "_enter": return 0
    if name == "exit": return 1
    assert name[0] == "t", name
    return int(name[1:])


def instrumented(p, n):
    """AST of time_machine's `tag(rec(source, "_enter")(*args), "exit")`"""
    return ["rec", 0, p, [["v", i] for i in range(n)], ["tag", 1, ["v", n], ["ret", ["v", n + 1]]]]


def count_recs(p, hidden=False):
    """record points the interpreter can see; hidden=True: those inside jit-ted sub-functions instead"""
    if p[0] == "ret": return 0
    if p[0] == "let": return count_recs(p[2], hidden)
    if p[0] == "tag": return (0 if hidden else 1) + count_recs(p[3], hidden)
    if p[0] == "call": return (count_all(p[1]) if hidden else 0) + count_recs(p[3], hidden)
    return (0 if hidden else 1) + count_recs(p[2], hidden) + count_recs(p[4], hidden)


def count_all(p):
    return count_recs(p) + count_recs(p, hidden=True)


def count_calls(p):
    if p[0] == "ret": return 0
    if p[0] == "let": return count_calls(p[2])
    if p[0] == "tag": return count_calls(p[3])
    if p[0] == "call": return 1 + count_calls(p[1]) + count_calls(p[3])
    return count_calls(p[2]) + count_calls(p[4])


def nesting(p):
    if p[0] == "ret": return 0
    if p[0] == "let": return nesting(p[2])
    if p[0] == "tag": return max(1, nesting(p[3]))
    if p[0] == "call": return max(nesting(p[1]), nesting(p[3]))
    return max(1 + nesting(p[2]), nesting(p[4]))


# ---- Coq literals -------------------------------------------------------------
def c_tag(t):
    if t is None: return "TNone"
    if t == "": return "TEmpty"
    return f"(TName {int(t)})"


def c_expr(e):
    k = e[0]
    if k == "v": return f"(EVar {int(e[1])})"
    if k == "c": return f"(EConst {cz(e[1])})"
    return f"({ {'+': 'EAdd', '-': 'ESub', '*': 'EMul'}[k]} {c_expr(e[1])} {c_expr(e[2])})"


def c_prog(p):
    k = p[0]
    if k == "ret": return f"(Ret {c_expr(p[1])})"
    if k == "let": return f"(Let {c_expr(p[1])} {c_prog(p[2])})"
    if k == "tag": return f"(Tag {c_tag(p[1])} {c_expr(p[2])} {c_prog(p[3])})"
    if k == "call": return f"(Call {c_prog(p[1])} {clist([c_expr(a) for a in p[2]])} {c_prog(p[3])})"
    return f"(Rec {c_tag(p[1])} {c_prog(p[2])} {clist([c_expr(a) for a in p[3]])} {c_prog(p[4])})"


def c_zs(zs):
    return clist([cz(z) for z in zs])


def c_cmd(c):
    if c[0] == "jump": return f"(CJump {c_tag(c[1])})"
    if c[0] == "fwd": return "CFwd"
    if c[0] == "bwd": return "CBwd"
    return f"(CRemix {c_zs(c[1])})"


def c_state(s):
    jp = clist([f"({c_tag(t)}, {int(i)}%nat)" for t, i in s["jp"]])
    frames = clist([f"({c_zs(a)}, {cz(r)})" for a, r in s["frames"]])
    sm = s["summary"]
    summ = "None" if sm is None else f"(Some ({cz(sm[0])}, {c_tag(sm[1])}, {c_zs(sm[2])}, {cz(sm[3])}))"
    return f"(mkost {cz(s['final'])} {int(s['ptr'])}%nat {jp} {frames} {summ})"


def c_outcome(o):
    if o[0] == "err":
        return f"(OErr {o[1]})"
    return f"(OOk {c_state(o[1])})"


def c_case(case, out):
    script = clist([f"({c_cmd(c)}, {c_outcome(o)})" for c, o in zip(case["script"], out["steps"])])
    return (f"TTCase {cbool(case['tm'])} {c_prog(case['p'])} {c_zs(case['args'])} "
            f"{c_state(out['init'])} {script}")


# ----------------------------------------------------------------------------
# implementation side
# ----------------------------------------------------------------------------
def realise(p, arity):
    """a Python function of exactly `arity` positional parameters that runs p with jax values"""
    import jax
    from genjax._src.core.compiler.interpreters.time_travel import rec, tag
    jitted = {}

    def ev(e, env):
        k = e[0]
        if k == "v": return env[e[1]]
        if k == "c": return float(e[1])
        a, b = ev(e[1], env), ev(e[2], env)
        return a + b if k == "+" else (a - b if k == "-" else a * b)

    def body(args):
        env, q = list(args), p
        while True:
            k = q[0]
            if k == "ret":
                return ev(q[1], env)
            if k == "let":
                env.append(ev(q[1], env)); q = q[2]
            elif k == "tag":
                env.append(tag(ev(q[2], env), tag_name(q[1]))); q = q[3]
            elif k == "call":
                if id(q) not in jitted:
                    jitted[id(q)] = jax.jit(realise(q[1], len(q[2])))
                env.append(jitted[id(q)](*[ev(a, env) for a in q[2]])); q = q[3]
            else:
                g = realise(q[2], len(q[3]))
                env.append(rec(g, tag_name(q[1]))(*[ev(a, env) for a in q[3]])); q = q[4]

    params = ", ".join(f"a{i}" for i in range(arity))
    return eval(f"lambda {params}: body(({params},))", {"body": body})


class Inexact(Exception):
    pass


def num(x):
    import numpy as np
    v = float(np.asarray(x))
    if v != int(v) or abs(v) >= LIM:
        raise Inexact(v)
    return int(v)


def observe(d):
    frames = [([num(a) for a in fr.args], num(fr.local_retval)) for fr in d.sequence]
    jp = sorted(((tag_id(k), int(v)) for k, v in d.jump_points.items()), key=lambda kv: repr(kv[0]))
    try:
        fin, (t, fr) = d.summary()
        t2, fr2 = d.frame()
        assert t2 == t and fr2 is fr
        summ = [num(fin), tag_id(t), [num(a) for a in fr.args], num(fr.local_retval)]
    except IndexError:
        summ = None
    return {"final": num(d.final_retval), "ptr": int(d.ptr), "jp": [list(x) for x in jp], "frames": [list(x) for x in frames],
            "summary": summ}


def errname(e):
    n = type(e).__name__
    if isinstance(e, KeyError): return "EKey"
    if isinstance(e, IndexError): return "EIndex"
    if isinstance(e, TypeError) or "TypeCheck" in n or "Beartype" in n: return "EType"
    return "EOther"


def run_impl(case):
    """-> {"plain": f(args), "init": state, "steps": [("ok", state) | ("err", name)]} or {"inexact": ...}"""
    import jax.numpy as jnp
    from genjax._src.core.compiler.interpreters.time_travel import time_machine, _record
    f = realise(case["p"], len(case["args"]))
    args = [jnp.float32(a) for a in case["args"]]
    try:
        plain = num(f(*args))
        if case["tm"]:
            d = time_machine(f)(*args)
        else:
            rv, d = _record(f)(*args)
            assert num(rv) == num(d.final_retval)
        out = {"plain": plain, "init": observe(d), "steps": []}
        for k, c in enumerate(case["script"]):
            try:
                if c[0] == "jump": d2 = d.jump(tag_name(c[1]))
                elif c[0] == "fwd": d2 = d.fwd()
                elif c[0] == "bwd": d2 = d.bwd()
                elif k % 2: d2 = d(*[jnp.float32(a) for a in c[1]])          # __call__ = remix
                else: d2 = d.remix(*[jnp.float32(a) for a in c[1]])
                st = observe(d2)
            except Inexact:
                raise
            except Exception as e:  # noqa: BLE001 -- errors are observables (enum)
                out["steps"].append(["err", errname(e), f"{type(e).__name__}: {str(e)[:120]}"])
                continue
            d = d2
            out["steps"].append(["ok", st])
        return out
    except Inexact as e:
        return {"inexact": str(e)}


# ----------------------------------------------------------------------------
# direct oracle: plain Python re-execution over integers
# ----------------------------------------------------------------------------
class Ref:
    """runs a program AST on Python ints; `ov` maps the preorder index of a recorded
    call to the arguments it receives instead of the computed ones"""

    def __init__(self, ov=None):
        self.ov = ov or {}
        self.calls = []      # [tag, args, ret] in execution (pre)order, outside jit-ted sub-functions
        self.hidden = 0      # recorded calls executed inside jit-ted sub-functions
        self.big = 0

    def ev(self, e, env):
        k = e[0]
        if k == "v": r = env[e[1]]
        elif k == "c": r = int(e[1])
        else:
            a, b = self.ev(e[1], env), self.ev(e[2], env)
            r = a + b if k == "+" else (a - b if k == "-" else a * b)
        self.big = max(self.big, abs(r))
        return r

    def run(self, p, env):
        env = list(env)
        while True:
            k = p[0]
            if k == "ret":
                return self.ev(p[1], env)
            if k == "let":
                env.append(self.ev(p[1], env)); p = p[2]
                continue
            if k == "call":
                sub = Ref()
                env.append(sub.run(p[1], [self.ev(x, env) for x in p[2]]))
                self.hidden += len(sub.calls) + sub.hidden
                self.big = max(self.big, sub.big)
                p = p[3]
                continue
            if k == "tag":
                t, g, a, nxt = p[1], ["ret", ["v", 0]], [self.ev(p[2], env)], p[3]
            else:
                t, g, a, nxt = p[1], p[2], [self.ev(x, env) for x in p[3]], p[4]
            idx = len(self.calls)
            a = list(self.ov.get(idx, a))
            for x in a:
                self.big = max(self.big, abs(x))
            entry = [t, a, None]
            self.calls.append(entry)
            entry[2] = self.run(g, a)
            env.append(entry[2]); p = nxt


def last_index(tags):
    jp = {}
    for i, t in enumerate(tags):
        if t is not None and t != "":
            jp[t] = i
    return jp


def expected(case):
    """what the property prescribes for this case, by plain Python re-execution only:
    {"plain", "init": state, "steps": [["ok", state] | ["err", name]], "big": largest magnitude met}"""
    p, args = case["p"], case["args"]
    P = instrumented(p, len(args)) if case["tm"] else p
    r0 = Ref(); final = r0.run(P, args)
    rp = Ref(); plain = rp.run(p, args)
    frames = [[c[1], c[2]] for c in r0.calls]
    jp = last_index([c[0] for c in r0.calls])
    n = len(frames)
    hist = [dict() for _ in range(n)]     # overrides of the run that produced frame j
    ptr = 0
    big = max(r0.big, rp.big)

    def state():
        if n == 0:
            summ = None
        else:
            t_here = [t for t, i in jp.items() if i == ptr]
            summ = [final, t_here[0] if t_here else None, list(frames[ptr][0]), frames[ptr][1]]
        return {"final": final, "ptr": ptr, "jp": sorted(([t, i] for t, i in jp.items()), key=repr),
                "frames": [[list(a), r] for a, r in frames], "summary": summ}

    exp = {"plain": plain, "init": state(), "steps": [], "hidden": r0.hidden}
    for c in case["script"]:
        err = None
        if c[0] == "jump":
            if c[1] is None: err = "EType"          # jump(debug_tag: str)
            elif c[1] not in jp: err = "EKey"
            else: ptr = jp[c[1]]
        elif c[0] == "fwd":
            ptr = min(ptr + 1, n - 1) if n else 0
        elif c[0] == "bwd":
            ptr = max(ptr - 1, 0)
        else:
            if n == 0: err = "EIndex"
            elif len(c[1]) != len(frames[ptr][0]): err = "EType"
            else:
                ov = dict(hist[ptr]); ov[ptr] = list(c[1])
                r = Ref(ov); final = r.run(P, args)
                big = max(big, r.big)
                new = [[x[1], x[2]] for x in r.calls]
                assert len(new) == n
                frames = frames[:ptr] + new[ptr:]
                for j in range(ptr + 1, n):
                    hist[j] = ov
        exp["steps"].append(["err", err] if err else ["ok", state()])
    exp["big"] = big
    return exp


def diff_state(got, want, where):
    for key, what in (("final", "final_retval"), ("frames", "frames (args, local_retval)"), ("jp", "jump_points"),
                      ("ptr", "pointer"), ("summary", "summary()")):
        g, w = got[key], want[key]
        if key == "jp":
            g, w = sorted(g, key=repr), sorted(w, key=repr)
        if g != w:
            return f"{where}: {what} is {g}, plain re-execution prescribes {w}"
    n = len(want["frames"])
    if n and not (0 <= got["ptr"] < n):
        return f"{where}: pointer {got['ptr']} outside the {n} recorded frames"
    return None


def oracle(case, out, collect=None):
    """the property on the implementation's observations; None if it holds, else what fails"""
    exp = expected(case)
    if collect is not None:
        collect["big"] = exp["big"]
        collect["n"] = len(exp["init"]["frames"])
        collect["hidden"] = exp["hidden"]
    if exp["hidden"] and not case.get("outside_region"):
        return (f"{exp['hidden']} recorded call(s) executed inside a jit-ted sub-function have no frame "
                "(outside the region flat p of C31_tt_frames_all_recorded)")
    if "inexact" in out:
        return f"the implementation produced a non-integer or huge value ({out['inexact']}) where re-execution stays below {exp['big'] + 1}"
    if out["plain"] != exp["plain"]:
        return f"f(args) itself: the realised function returned {out['plain']}, plain Python gives {exp['plain']}"
    if case["tm"] and out["init"]["final"] != out["plain"]:
        return f"time_machine: final_retval {out['init']['final']} but f(args) = {out['plain']}"
    why = diff_state(out["init"], exp["init"], "time_machine" if case["tm"] else "_record")
    if why: return why
    if len(out["steps"]) != len(case["script"]):
        return "script not completed"
    for k, (c, o, e) in enumerate(zip(case["script"], out["steps"], exp["steps"])):
        where = f"step {k} {c}"
        if e[0] == "err":
            if o[0] != "err" or o[1] != e[1]:
                return f"{where}: expected {e[1]}, got {o[1:3] if o[0] == 'err' else 'a debugger'}"
            continue
        if o[0] == "err":
            return f"{where}: raised {o[2] if len(o) > 2 else o[1]}"
        why = diff_state(o[1], e[1], where)
        if why: return why
    return None


# ----------------------------------------------------------------------------
# generators (ctx.rng only)
# ----------------------------------------------------------------------------
def gen_expr(rng, nvars, depth=2):
    r = rng.random()
    if depth == 0 or r < 0.35:
        if nvars and rng.random() < 0.8:
            return ["v", rng.randrange(nvars)]
        return ["c", rng.randint(-3, 3)]
    op = rng.choice("++--*")
    return [op, gen_expr(rng, nvars, depth - 1), gen_expr(rng, nvars, depth - 1)]


def gen_tag(rng, ntags):
    r = rng.random()
    if r < 0.12: return None
    if r < 0.16: return ""
    if r < 0.22: return rng.choice([0, 1])          # clashes with time_machine's own tags
    return 2 + rng.randrange(ntags)                  # few names: duplicates are common


def gen_prog(rng, arity, depth, budget, ntags, top=False, hide=False):
    """budget: [remaining record points] (mutable)"""
    nst = rng.randint(2, 4) if top and budget[0] else rng.randint(0, 4)
    stmts = []
    nvars = arity
    for _ in range(nst):
        r = rng.random()
        if r > 0.94 and depth > 0:
            k = rng.randint(1, 2)
            a = [gen_expr(rng, nvars, 1) for _ in range(k)]
            inner = [min(budget[0], 2)] if hide and rng.random() < 0.5 else [0]
            budget[0] -= inner[0]
            g = gen_prog(rng, k, depth - 1, inner, ntags, hide=hide)
            budget[0] += inner[0]
            stmts.append(("call", g, a))
        elif r < (0.25 if top else 0.35) or budget[0] <= 0:
            stmts.append(("let", gen_expr(rng, nvars)))
        elif r < 0.55:
            budget[0] -= 1
            stmts.append(("tag", gen_tag(rng, ntags), gen_expr(rng, nvars, 1)))
        else:
            budget[0] -= 1
            k = rng.randint(1, 3)
            a = [gen_expr(rng, nvars, 1) for _ in range(k)]
            t = gen_tag(rng, ntags)
            g = gen_prog(rng, k, depth - 1, budget, ntags, hide=hide) if depth > 0 else ["ret", gen_expr(rng, k)]
            stmts.append(("rec", t, g, a))
        nvars += 1
    p = ["ret", gen_expr(rng, nvars)]
    for s in reversed(stmts):
        if s[0] == "let": p = ["let", s[1], p]
        elif s[0] == "call": p = ["call", s[1], s[2], p]
        elif s[0] == "tag": p = ["tag", s[1], s[2], p]
        else: p = ["rec", s[1], s[2], s[3], p]
    return p


def gen_script(rng, case, maxlen):
    """navigation / remix script; uses the reference run only to know which tags exist and
    how many arguments the frame under the pointer takes (mostly valid commands)"""
    p, args = case["p"], case["args"]
    P = instrumented(p, len(args)) if case["tm"] else p
    r0 = Ref(); r0.run(P, args)
    ar = [len(c[1]) for c in r0.calls]
    jp = last_index([c[0] for c in r0.calls])
    n = len(ar)
    ptr = 0
    script = []
    for _ in range(rng.randint(1, maxlen)):
        r = rng.random()
        if r < 0.30:
            u = rng.random()
            if u < 0.75 and jp: t = rng.choice(sorted(jp, key=repr))
            elif u < 0.87: t = rng.choice([7, 8, 9, 2, 3])        # mostly unknown
            else: t = ""
            # (jump(None) is rejected by beartype's `debug_tag: str` check, not by this module: modelled
            #  as EType but deliberately not generated, so that a change of type-checking policy is no alarm)
            script.append(["jump", t])
            if t in jp: ptr = jp[t]
        elif r < 0.50:
            script.append(["fwd"]); ptr = min(ptr + 1, n - 1) if n else 0
        elif r < 0.65:
            script.append(["bwd"]); ptr = max(ptr - 1, 0)
        else:
            k = ar[ptr] if n else 1
            if rng.random() < 0.08: k = k + rng.choice([-1, 1])
            script.append(["remix", [rng.randint(-3, 3) for _ in range(max(k, 0))]])
    return script


CORPUS = [
    # zero record points
    {"tm": True, "p": ["ret", ["*", ["v", 0], ["c", 2]]], "args": [3], "script": [["bwd"], ["fwd"], ["fwd"], ["remix", [5]], ["jump", 0], ["remix", [2]]]},
    {"tm": False, "p": ["ret", ["*", ["v", 0], ["c", 2]]], "args": [3], "script": [["fwd"], ["bwd"], ["remix", [1]], ["jump", 1]]},
    # nested three deep, duplicated tags, tags clashing with _enter / exit, falsy tags
    {"tm": True, "args": [2, 3], "p":
        ["rec", 2, ["rec", 3, ["tag", 4, ["+", ["v", 0], ["c", 1]], ["ret", ["*", ["v", 1], ["c", 2]]]], [["-", ["v", 0], ["v", 1]]],
                    ["tag", 4, ["*", ["v", 2], ["v", 1]], ["ret", ["+", ["v", 3], ["c", 1]]]]], [["v", 0], ["v", 1]],
         ["rec", 2, ["ret", ["+", ["v", 0], ["v", 0]]], [["v", 2]],
          ["tag", 0, ["v", 3], ["tag", 1, ["v", 0], ["tag", None, ["v", 4], ["tag", "", ["v", 1], ["ret", ["-", ["v", 3], ["v", 2]]]]]]]]],
     "script": [["jump", 4], ["remix", [5]], ["bwd"], ["remix", [1]], ["jump", 0], ["remix", [7]], ["jump", 1], ["fwd"], ["jump", 2], ["remix", [0]]]},
    {"tm": False, "args": [1], "p": ["tag", 2, ["v", 0], ["tag", 2, ["+", ["v", 1], ["c", 1]], ["ret", ["*", ["v", 2], ["c", 3]]]]],
     "script": [["jump", 2], ["bwd"], ["bwd"], ["remix", [4]], ["fwd"], ["fwd"], ["jump", ""], ["remix", [1, 2]]]},
    # a jit-ted helper without record points between two record points (inside the region)
    {"tm": True, "args": [2], "p": ["tag", 2, ["v", 0], ["call", ["let", ["*", ["v", 0], ["v", 1]], ["ret", ["+", ["v", 2], ["c", 1]]]], [["v", 1], ["c", 3]],
                                    ["rec", 3, ["call", ["ret", ["-", ["v", 0], ["c", 1]]], [["v", 0]], ["ret", ["*", ["v", 1], ["c", 2]]]], [["v", 2]], ["ret", ["+", ["v", 3], ["v", 0]]]]]],
     "script": [["jump", 3], ["remix", [5]], ["jump", 2], ["remix", [1]], ["fwd"], ["fwd"], ["fwd"]]},
    # OUTSIDE the region (correspondence only): a record point inside a jit-ted helper gets no frame
    {"tm": True, "args": [3], "outside_region": True,
     "p": ["call", ["rec", 2, ["ret", ["*", ["v", 0], ["c", 2]]], [["v", 0]], ["ret", ["v", 1]]], [["v", 0]], ["tag", 3, ["v", 1], ["ret", ["+", ["v", 2], ["c", 1]]]]],
     "script": [["jump", 2], ["jump", 3], ["remix", [1]], ["fwd"]]},
]


def gen_cases(ctx):
    rng = ctx.rng
    cases = [dict(c) for c in CORPUS]
    N = ctx.n(200, 2000)
    maxlen = ctx.n(5, 8)
    tries = 0
    while len(cases) < N + len(CORPUS) and tries < 20 * N:
        tries += 1
        arity = rng.randint(1, 3)
        budget = [rng.choice([0, 1, 2, 2, 3, 3, 4, 4, 4]) if ctx.quick else rng.choice([0, 1, 2, 3, 4, 5, 6, 6])]
        hide = rng.random() < 0.12       # correspondence-only stream: record points inside jit-ted sub-functions
        p = gen_prog(rng, arity, ctx.n(2, 3), budget, rng.choice([1, 2, 3]), top=True, hide=hide)
        case = {"tm": rng.random() < 0.8, "p": p, "args": [rng.randint(-3, 3) for _ in range(arity)]}
        if count_recs(p, hidden=True):
            case["outside_region"] = True
        case["script"] = gen_script(rng, case, maxlen)
        # exactness pre-check on the reference run (the initial run; remixes are checked after the fact)
        r = Ref(); r.run(instrumented(p, arity), case["args"])
        if r.big >= LIM // 64:
            continue
        cases.append(case)
    return cases


# ----------------------------------------------------------------------------
def nontrivial(case, out):
    """at least one user record point, and a command that moved the pointer or remixed successfully"""
    if count_recs(case["p"]) == 0:
        return False
    ptr = out["init"]["ptr"]
    for c, o in zip(case["script"], out["steps"]):
        if o[0] == "ok" and (c[0] == "remix" or o[1]["ptr"] != ptr):
            return True
        if o[0] == "ok":
            ptr = o[1]["ptr"]
    return False


def run(ctx):
    import genjax
    ctx.proofs()
    ctx.log(f"implementation under test: {genjax.__file__}")
    cases = gen_cases(ctx)
    terms, kept = [], []
    nbad = 0
    inexact = 0
    stats = {"cmd": {}, "err": {}, "recs": {}, "nesting": {}, "frames": {}, "jit_calls": {}, "mode": {"time_machine": 0, "_record": 0},
             "outside_region": 0}
    for case in cases:
        out = run_impl(case)
        col = {}
        why = oracle(case, out, col)
        if col.get("big", 0) >= LIM:       # float32 no longer exact on this case: not compared
            inexact += 1
            continue
        if why is not None:
            nbad += 1
            if nbad <= 3:
                ctx.fail("oracle", f"program {json.dumps(case['p'])} args {case['args']} script {case['script']}: {why}", case=case)
        if "inexact" in out:
            continue
        terms.append(c_case(case, out))
        kept.append((case, out))
        stats["mode"]["time_machine" if case["tm"] else "_record"] += 1
        for c, o in zip(case["script"], out["steps"]):
            stats["cmd"][c[0]] = stats["cmd"].get(c[0], 0) + 1
            if o[0] == "err":
                stats["err"][o[1]] = stats["err"].get(o[1], 0) + 1
        stats["outside_region"] += 1 if case.get("outside_region") else 0
        for key, v in (("recs", count_recs(case["p"])), ("nesting", nesting(case["p"])), ("frames", len(out["init"]["frames"])),
                       ("jit_calls", count_calls(case["p"]))):
            stats[key][str(v)] = stats[key].get(str(v), 0) + 1
    mism, errs = core.coq_mismatches(
        "C31", "From Coq Require Import List Bool ZArith.\nFrom Model Require Import TimeTravel.", terms, "ttcase",
        fn="ttmismatches", shard=60)
    for e in errs[:2]:
        ctx.fail("correspondence", "A-tt case file did not evaluate: " + e)
    for i in mism[:3]:
        case, out = kept[i]
        ctx.fail("correspondence", f"model coq/model/TimeTravel.v and implementation disagree on program {json.dumps(case['p'])} args {case['args']} "
                 f"script {case['script']}: implementation observed {json.dumps(out)[:600]}", case=case)
    if mism and not nbad:
        # search around the mismatches for an input on which the property itself fails
        found = search_neighbourhood(ctx, [kept[i][0] for i in mism[:5]])
        if found:
            ctx.fail("oracle", found[1], case=found[0])
    nt = {json.dumps(c, sort_keys=True) for c, o in kept if nontrivial(c, o)}
    ctx.cov["evaluations"] = len(kept)
    ctx.cov["traces_validated_against_impl"] = len(kept) - len(mism)
    ctx.cov["distinct_nontrivial"] = len(nt)
    ctx.cov["inexact_skipped"] = inexact
    ctx.cov["debugger_states_compared"] = sum(1 + sum(1 for o in out["steps"] if o[0] == "ok") for c, out in kept)
    ctx.cov["errors_compared"] = sum(stats["err"].values())
    ctx.cov["by_kind"] = stats
    ctx.cov["genjax_file"] = genjax.__file__
    ctx.cov["rule"] = ("random straight-line programs over float32-stored integers (arity 1-3, <= 4 statements per body, record points "
                       f"rec/tag with tags None, '', clashing '_enter'/'exit' and 1-3 shared names, <= {ctx.n(4, 6)} record points, nesting <= {ctx.n(3, 4)}) "
                       "and jax.jit-ted helper calls (6% of statements; in 12% of the programs they may contain record points: outside the region, compared "
                       "with the model only, which predicts no frame for them), realised with genjax's rec/tag, run through time_machine (80%) or _record (20%) and a script of "
                       f"<= {ctx.n(5, 8)} commands jump(existing/unknown/'' tag) | fwd | bwd | remix(args, 8% wrong arity); after every command the whole "
                       "debugger (final_retval, ptr, jump_points, every frame's args and local_retval, summary()) or the exception class is compared in Coq "
                       "with the model; non-trivial = program has a user record point and some command moved the pointer or remixed; distinct by JSON")
    if len(kept) and len(nt) * 2 < len(kept):
        ctx.fail("tie", f"generator too trivial: {len(nt)} non-trivial of {len(kept)}")
    ctx.add_samples([{"case": c, "impl": o} for c, o in kept[2:3] + kept[len(CORPUS):len(CORPUS) + 2]])
    # the candidate finding outside the region, replayed for information (never a verdict of this check:
    # it becomes a KNOWN-FINDING line only once listed in known_findings.json)
    rc, last = core.run_witness("witness/w22_tt_record_under_subjaxpr.py")
    ctx.cov["outside_region_witness"] = {"witness": "witness/w22_tt_record_under_subjaxpr.py", "exit": rc, "says": last[:300]}
    ctx.log("note: outside the region flat p (record points inside jit/cond/scan bodies): " +
            ("still not recorded -- " + last[:200] if rc != 0 else "now recorded (witness passes)"))


def search_neighbourhood(ctx, cases):
    """variants of mismatching cases (shorter scripts, each single command, other arguments) through the direct oracle"""
    for case in cases:
        variants = []
        for k in range(len(case["script"]) + 1):
            variants.append(dict(case, script=case["script"][:k]))
        for c in case["script"]:
            variants.append(dict(case, script=[c]))
        for d in (-1, 1, 2):
            variants.append(dict(case, args=[a + d for a in case["args"]]))
        for v in variants:
            out = run_impl(v)
            col = {}
            why = oracle(v, out, col)
            if why and col.get("big", 0) < LIM:
                return v, f"(found near a correspondence mismatch) program {json.dumps(v['p'])} args {v['args']} script {v['script']}: {why}"
    return None


def replay(case):
    out = run_impl(case)
    col = {}
    why = oracle(case, out, col)
    if col.get("big", 0) >= LIM:
        print("values beyond float32's exact range: not a case of the check"); return True
    print(f"program {json.dumps(case['p'])} args {case['args']} script {case['script']}: {why or 'ok'}")
    return why is None
