(* Flat static generative functions over Q (engine C-inf, shared by C27 Rejuvenate
   and C28 HMC).  A program is a list of trace sites `dist(args) @ addr`; the
   arguments of a site are a function of the program's parameters and the values of
   the earlier sites, its log-density and its sampler are arbitrary functions (so a
   theorem about `prog` holds for every flat model whatever its densities are).
   Scores and weights are rationals in log space.

   Mirrors genjax/_src/generative_functions/static.py (SimulateHandler,
   AssessHandler, UpdateHandler, StaticTrace) and
   distributions/distribution.py (Distribution.simulate / assess /
   edit_update_with_constraint) for the case "every site is an ExactDensity
   distribution with a scalar float value".  No proofs in this file. *)
From Coq Require Import List Bool ZArith NArith QArith.
Import ListNotations.
From Model Require Import Key.
Open Scope Q_scope.

(* ---------------- errors ---------------- *)
Inductive err := EAddressReuse | EMissingAddress | EOther.
Inductive res (A : Type) := Ok (a : A) | Err (e : err).
Arguments Ok {A}. Arguments Err {A}.
Definition bind {A B} (r : res A) (f : A -> res B) : res B := match r with Ok a => f a | Err e => Err e end.
Notation "'do' x <- r ; k" := (bind r (fun x => k)) (at level 200, x pattern, r at level 100, k at level 200).
Definition err_eqb (a b : err) : bool :=
  match a, b with
  | EAddressReuse, EAddressReuse | EMissingAddress, EMissingAddress | EOther, EOther => true
  | _, _ => false
  end.

(* ---------------- polynomial expressions (how the case files write densities) ---------------- *)
Inductive pexpr := PVar (i : nat) | PConst (q : Q) | PAdd (a b : pexpr) | PMul (a b : pexpr).
Fixpoint peval (env : list Q) (e : pexpr) : Q :=
  match e with
  | PVar i => nth i env 0
  | PConst q => q
  | PAdd a b => peval env a + peval env b
  | PMul a b => peval env a * peval env b
  end.
(* the same value, kept in lowest terms after every operation (Qred q == q): what the case
   files evaluate, so that the numerators of an L-step trajectory stay small *)
Fixpoint peval_r (env : list Q) (e : pexpr) : Q :=
  match e with
  | PVar i => nth i env 0
  | PConst q => q
  | PAdd a b => Qred (peval_r env a + peval_r env b)
  | PMul a b => Qred (peval_r env a * peval_r env b)
  end.
(* formal partial derivative with respect to variable i *)
Fixpoint pderiv (i : nat) (e : pexpr) : pexpr :=
  match e with
  | PVar j => PConst (if Nat.eqb i j then 1 else 0)
  | PConst _ => PConst 0
  | PAdd a b => PAdd (pderiv i a) (pderiv i b)
  | PMul a b => PAdd (PMul (pderiv i a) b) (PMul a (pderiv i b))
  end.
Fixpoint psubst (s : list pexpr) (e : pexpr) : pexpr :=
  match e with
  | PVar j => nth j s (PConst 0)
  | PConst q => PConst q
  | PAdd a b => PAdd (psubst s a) (psubst s b)
  | PMul a b => PMul (psubst s a) (psubst s b)
  end.

(* ---------------- choice maps: address -> value, observational ---------------- *)
Definition chm := list (nat * Q).
Fixpoint lookup {A} (l : list (nat * A)) (a : nat) : option A :=
  match l with
  | [] => None
  | (b, v) :: r => if Nat.eqb a b then Some v else lookup r a
  end.
Definition get (c : chm) (a : nat) : option Q := lookup c a.
Definition is_some {A} (o : option A) : bool := match o with Some _ => true | None => false end.
(* the values of x, those constrained by c replaced *)
Definition override (x c : chm) : chm :=
  map (fun av => (fst av, match get c (fst av) with Some v' => v' | None => snd av end)) x.
(* the entries of x at the addresses c constrains (the discard of an update) *)
Definition discard (x c : chm) : chm := filter (fun av => is_some (get c (fst av))) x.

Fixpoint memb (a : nat) (l : list nat) : bool :=
  match l with [] => false | b :: r => Nat.eqb a b || memb a r end.
Fixpoint nodupb (l : list nat) : bool :=
  match l with [] => true | a :: r => negb (memb a r) && nodupb r end.

(* ---------------- programs ---------------- *)
Record site := {
  s_addr : nat;
  s_args : list Q -> list Q;        (* environment (parameters ++ earlier values) -> arguments *)
  s_lpdf : Q -> list Q -> Q;        (* logpdf(value, args) *)
  s_samp : key -> list Q -> Q       (* sample(key, args) *)
}.
Definition prog := list site.
Definition addrs (p : prog) : list nat := map s_addr p.

(* StaticTrace: arguments, and per address the DistributionTrace (value, stored score) *)
Definition subs_t := list (nat * (Q * Q)).
Record strace := { t_args : list Q; t_subs : subs_t }.
Definition choices_of (s : subs_t) : chm := map (fun e => (fst e, fst (snd e))) s.
Definition choices (t : strace) : chm := choices_of (t_subs t).
(* StaticTrace.get_score: the sum of the subtraces' stored scores *)
Fixpoint sum_scores (s : subs_t) : Q :=
  match s with [] => 0 | e :: r => snd (snd e) + sum_scores r end.
Definition score (t : strace) : Q := sum_scores (t_subs t).

(* SimulateHandler: site number c (from 1) draws with fold_in(key, c) *)
Fixpoint sim_sites (ss : prog) (k : key) (c : N) (env : list Q) : subs_t :=
  match ss with
  | [] => []
  | s :: r =>
      let a := s_args s env in
      let v := s_samp s (fold_in k c) a in
      (s_addr s, (v, s_lpdf s v a)) :: sim_sites r k (c + 1)%N (env ++ [v])
  end.
Definition simulate (p : prog) (k : key) (args : list Q) : res strace :=
  if nodupb (addrs p) then Ok {| t_args := args; t_subs := sim_sites p k 1%N args |}
  else Err EAddressReuse.

(* the trace simulate / generate(full constraint) leave for given site values (site order): the
   stored score of a site is the logpdf of its value *)
Fixpoint subs_at (ss : prog) (vals : list Q) (env : list Q) : subs_t :=
  match ss, vals with
  | s :: r, v :: vr => (s_addr s, (v, s_lpdf s v (s_args s env))) :: subs_at r vr (env ++ [v])
  | _, _ => []
  end.
Definition trace_at (p : prog) (args vals : list Q) : strace :=
  {| t_args := args; t_subs := subs_at p vals args |}.

(* AssessHandler: every site must be present in the sample *)
Fixpoint assess_sites (ss : prog) (x : chm) (env : list Q) : res Q :=
  match ss with
  | [] => Ok 0
  | s :: r =>
      match get x (s_addr s) with
      | None => Err EMissingAddress
      | Some v =>
          do rest <- assess_sites r x (env ++ [v]);
          Ok (s_lpdf s v (s_args s env) + rest)
      end
  end.
Definition assess (p : prog) (x : chm) (args : list Q) : res Q :=
  if nodupb (addrs p) then assess_sites p x args else Err EAddressReuse.

(* UpdateHandler with unchanged arguments.  Per site (Distribution.edit_update_with_constraint):
   constrained:   fwd = logpdf(new value; args); w = fwd - stored score; discard the old value;
   unconstrained: fwd = logpdf(old value; args); w = fwd - stored score; nothing discarded.
   The previous subtrace is looked up by address.  Result: new subtraces, weight, discard. *)
Fixpoint upd_sites (ss : prog) (old : subs_t) (c : chm) (env : list Q) : res (subs_t * Q * chm) :=
  match ss with
  | [] => Ok ([], 0, [])
  | s :: r =>
      match lookup old (s_addr s) with
      | None => Err EOther
      | Some (v0, sc0) =>
          let a := s_args s env in
          let v := match get c (s_addr s) with Some v' => v' | None => v0 end in
          let fwd := s_lpdf s v a in
          do x <- upd_sites r old c (env ++ [v]);
          let '(subs, w, bwd) := x in
          Ok ((s_addr s, (v, fwd)) :: subs, (fwd - sc0) + w,
              (if is_some (get c (s_addr s)) then [(s_addr s, v0)] else []) ++ bwd)
      end
  end.
Definition update (p : prog) (t : strace) (c : chm) : res (strace * Q * chm) :=
  if nodupb (addrs p) then
    do x <- upd_sites p (t_subs t) c (t_args t);
    let '(subs, w, bwd) := x in
    Ok ({| t_args := t_args t; t_subs := subs |}, w, bwd)
  else Err EAddressReuse.

(* ---------------- sites written with polynomials (case files) ---------------- *)
(* arguments: polynomials over the environment; log-density: polynomial over value :: args;
   sampler: first argument (0 if none) + (((k0 xor k1) >> shift) land 3 - 1) / 2 *)
Record psite := { ps_addr : nat; ps_args : list pexpr; ps_lp : pexpr; ps_shift : N }.
Definition key_bits (k : key) (sh : N) : Q :=
  inject_Z (Z.of_N (N.land (N.shiftr (N.lxor (fst k) (snd k)) sh) 3)).
Definition site_of (s : psite) : site :=
  {| s_addr := ps_addr s;
     s_args := fun env => map (peval_r env) (ps_args s);
     s_lpdf := fun v args => peval_r (v :: args) (ps_lp s);
     s_samp := fun k args => nth 0 args 0 + (key_bits k (ps_shift s) - 1) * (1 # 2) |}.
Definition prog_of (l : list psite) : prog := map site_of l.

(* the log-density of the whole program as one polynomial in the site values (variable i =
   value of site i; parameters are constants), by substitution; and its formal gradient *)
Fixpoint total_lp_from (ss : list psite) (envp : list pexpr) : pexpr :=
  match ss with
  | [] => PConst 0
  | s :: r =>
      let v := PVar (length envp) in
      PAdd (psubst (v :: map (psubst envp) (ps_args s)) (ps_lp s)) (total_lp_from r (envp ++ [v]))
  end.

(* ---------------- comparison helpers for the correspondence ---------------- *)
Definition qeqb (a b : Q) : bool := Qeq_bool a b.
Fixpoint chm_eqb (a b : chm) : bool :=
  match a, b with
  | [], [] => true
  | (x, v) :: r, (y, w) :: s => Nat.eqb x y && qeqb v w && chm_eqb r s
  | _, _ => false
  end.
Fixpoint qlist_eqb (a b : list Q) : bool :=
  match a, b with
  | [], [] => true
  | x :: r, y :: s => qeqb x y && qlist_eqb r s
  | _, _ => false
  end.
Definition Qabs' (q : Q) : Q := if Qle_bool 0 q then q else - q.
(* |a - b| <= tol * (1 + scale) *)
Definition close (tol scale a b : Q) : bool := Qle_bool (Qabs' (a - b)) (tol * (1 + scale)).
