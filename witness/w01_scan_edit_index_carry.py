"""fixed-defect witness: Scan.edit_index stored the wrong final carry (C01, C12).
exit 1 if the defect is present."""
import sys, jax, jax.numpy as jnp
import genjax
from genjax import gen, normal, ChoiceMap as C, IndexRequest, Update, Diff

@gen
def kernel(c, x):
    z = normal(c + x, 1.0) @ "x"
    return z, z

n = 4
g = kernel.scan(n=n)
key = jax.random.key(0)
args = (jnp.array(0.0), jnp.arange(n, dtype=float))
tr = g.simulate(key, args)
bad = []
for idx in range(n):
    req = IndexRequest(jnp.array(idx), Update(C.d({"x": jnp.array(0.5)})))
    tr2, w, rd, bwd = req.edit(key, tr, Diff.no_change(args))
    s, (carry, ys) = g.assess(tr2.get_choices(), tr2.get_args())
    got = tr2.get_retval()[0]
    if abs(float(got) - float(carry)) > 1e-6:
        bad.append(("retval", idx, float(got), float(carry)))
    if abs(float(Diff.tree_primal(rd)[0]) - float(carry)) > 1e-6:
        bad.append(("retdiff", idx, float(Diff.tree_primal(rd)[0]), float(carry)))
print("FAIL" if bad else "OK", bad)
sys.exit(1 if bad else 0)
